"""C11 — Pipelines that compare equal behave identically  (ViewRepresentation.__eq__, *._equiv_nodes, is_equal,
RecordMap.__eq__)."""
import copy
import glob
import json
import os
import random
import re
import warnings

from .. import modeltree as mt
from .. import pipes
from ..core import Suite, VERIF

PROPERTY = "C11"
LEAN_MODULES = ["DAVerif.Props.C11", "DAVerif.Props.C11sql"]
THEOREMS = [
    # the SQL half (Props/C11sql.lean): == pipelines translate to the same NearSQL tree up to what is never printed
    "DAVerif.C11.C11_sql_same_tree", "DAVerif.C11.C11_sql_same_tree_reachable", "DAVerif.C11.C11_sql_same_tree_normalised",
    "DAVerif.C11.C11_sql_same_with_form", "DAVerif.C11.C11_sql_same_sem", "DAVerif.C11.C11_sql_same_sem_options",
    "DAVerif.C11.C11_sql_same_sem_cte_elim", "DAVerif.C11.C11_sql_exact_tree_false", "DAVerif.C11.C11_sql_cte_elim_necessary",
    "DAVerif.C11.C11_refl",
    "DAVerif.C11.C11_symm",
    "DAVerif.C11.C11_trans",
    "DAVerif.C11.C11_sound_struct",
    "DAVerif.C11.C11_complete_struct",
    "DAVerif.C11.C11_sem_erase",
    "DAVerif.C11.C11_cols_erase",
    "DAVerif.C11.C11_sound_sem",
    "DAVerif.C11.C11_sound_cols",
    "DAVerif.C11.C11_reachable_dictWF",
    "DAVerif.C11.C11_refl_reachable",
    "DAVerif.C11.C11_symm_reachable",
    "DAVerif.C11.C11_sound_sem_reachable",
    "DAVerif.C11.C11_refl_dict_necessary",
    "DAVerif.C11.C11_symm_dict_necessary",
    "DAVerif.C11.C11_sound_sem_dict_necessary",
    "DAVerif.C11.C11_sound_sem_rec_necessary",
    "DAVerif.C11.C11_list_constant_types_matter",
]
# further theorems of these modules (supporting / intermediate statements of the property theorems above): audited
# for axioms on every run like the rest
THEOREMS += [
    "DAVerif.C11.C11_sql_build_erase",
    "DAVerif.C11.C11_sql_buildChain_erase",
    "DAVerif.C11.C11_sql_erase_tree",
    "DAVerif.C11.C11_sql_shape_sem",
    "DAVerif.C11.C11_sql_shape_sem_with",
]
ASSUMPTIONS = [
    "extend/project assignments are Python dicts (distinct keys): hypothesis DictWF of the theorems; proven for every "
    "pipeline obtained from table descriptions by builder calls (C11_reachable_dictWF) and shown necessary in the "
    "model (association lists) by C11_*_dict_necessary",
    "a RecordMap's columns_needed is a function of its printed specifications (repr of blocks_in / blocks_out): "
    "hypothesis RecCoherent; the model's RecMap is the summary (needed, produced, repr)",
    "Expression.params is None (never set by the parser or the builders); TableDescription qualifiers / sql_meta / "
    "head / nrows are not part of the model (to_sql does not read qualifiers: checked by hand, not by the suite)",
    "constants are None/bool/int/float/str with finite floats exactly representable; the model's Lit has no signed "
    "zero (0.0 and -0.0 are one constant: known finding C11-negative-zero-constant)",
    "pipelines are compared as trees: a shared sub-DAG is expanded on both sides (as __eq__ itself does)",
]
NOT_PROVEN = [
    "'the same SQL in every dialect' is proved at the level of the SQL generator model: == pipelines translate to the same "
    "NearSQL tree up to the method flags of the carried expressions and the never-printed ops_key strings (C11_sql_same_tree), the "
    "same WITH form without CTE elimination, and the same result under the modelled engine for every option combination (with "
    "CTE elimination under C04's KeyFaithful hypothesis). The text renderer is not modelled (the only reader of the method flag is "
    "Expression.to_python); to_sql texts of 5 dialects (+ PostgreSQL with CTE elimination) are compared by the oracle",
    "literal equality of the trees is false (C11_sql_exact_tree_false: ops_key contains the printed pipeline) and under CTE "
    "elimination the emitted CTE lists can differ (C11_sql_cte_elim_necessary = known finding C11-method-flag-cte-elim)",
]
LEVEL_TEXT = ("Kernel-checked for every pair of operator trees, every interpretation of the function symbols, both "
              "semantic configurations and every environment: == (model Eq.eqOps of the patched code) is reflexive, "
              "symmetric and transitive, decides exactly 'same tree up to the method flags of expressions', and the "
              "relational semantics and column names factor through forgetting those flags, so equal pipelines "
              "evaluate to the same outcome. The model of == is compared with the real == on random pipelines and "
              "their single-argument mutants on every run; an independent oracle checks Pandas results and to_sql "
              "text in five dialects for every pair the real library calls equal.")
LEVEL_NOTE = ("Trusted: Lean kernel; axioms propext/Classical.choice/Quot.sound; the hand-written model of __eq__ "
              "(suite k3_eq), of the builders (suite K2) and of the Pandas executor (suite K4 of the operator layer); "
              "the SQL half is sampled, not proven. Needs the three C11 fixes in /repo (fixes/C11-*.diff).")
RULE = ("random well-formed pipelines from harness/pipes.py (depth 1..8 quick / 1..14 thorough, joins, concats, shared "
        "sub-DAGs, windows, record maps), each with a final list/dict-constant step in 35% of the cases; per pipeline "
        "an identical rebuild, a method-flag flip and up to 10 (thorough 24) random single-argument mutants built "
        "through the real builders; plus ordered pairs of a family of 73 one-step pipelines (quick: each with its 2 "
        "neighbours on either side, thorough: all 73 x 73); "
        "non-trivial = both sides built and the pipeline has at least 2 steps; distinct by canonical JSON of "
        "(tables, p, q)")

FIXED_IDS = {"C11-list-constant-equality", "C11-dict-constant-equality", "C11-column-map-order"}


# ------------------------------------------------------------------------------------------------
# mutants
# ------------------------------------------------------------------------------------------------

_STR_RE = re.compile(r"'(?:[^'\\]|\\.)*'|\"(?:[^\"\\]|\\.)*\"")
_NUM_RE = re.compile(r"(?<![\w.])(\d+\.\d+|\d+)(?![\w.])")
_BOOL_RE = re.compile(r"(?<![\w.])(True|False)(?![\w.])")


def _outside_strings(text):
    """[(start, end)] of the parts of an expression text that are not inside a string literal"""
    spans, pos = [], 0
    for m in _STR_RE.finditer(text):
        if m.start() > pos:
            spans.append((pos, m.start()))
        pos = m.end()
    if pos < len(text):
        spans.append((pos, len(text)))
    return spans


def _split_items(body):
    """split the inside of a [..] / {..} literal at top-level commas (quote aware)"""
    items, cur, q, esc = [], "", None, False
    for ch in body:
        if q:
            cur += ch
            if esc:
                esc = False
            elif ch == "\\":
                esc = True
            elif ch == q:
                q = None
            continue
        if ch in "'\"":
            q = ch
            cur += ch
        elif ch == ",":
            items.append(cur.strip())
            cur = ""
        else:
            cur += ch
    if cur.strip():
        items.append(cur.strip())
    return items


def text_mutants(text):
    """[(kind, new text)]: one constant / one collection literal of an expression text changed"""
    out = []
    if not isinstance(text, str):
        if isinstance(text, bool):
            return [("const_value", not text)]
        if isinstance(text, int):
            return [("const_value", text + 1), ("const_type", float(text))]
        if isinstance(text, float):
            return [("const_value", text + 1.0)] + ([("const_type", int(text))] if text == int(text) else [])
        return out
    for a, b in _outside_strings(text):
        seg = text[a:b]
        for m in _NUM_RE.finditer(seg):
            s, e, tok = a + m.start(), a + m.end(), m.group(1)
            rep = []
            if "." in tok:
                f = float(tok)
                rep.append(("const_value", repr(f + 1.0)))
                if f == int(f):
                    rep.append(("const_type", str(int(f))))
                if f == 0.0:
                    rep.append(("const_negzero", "-0.0"))
            else:
                n = int(tok)
                rep.append(("const_value", str(n + 1)))
                rep.append(("const_type", tok + ".0"))
                if n in (0, 1):
                    rep.append(("const_type", "True" if n else "False"))
            for k, r in rep:
                out.append((k, text[:s] + r + text[e:]))
        for m in _BOOL_RE.finditer(seg):
            s, e = a + m.start(), a + m.end()
            out.append(("const_value", text[:s] + ("False" if m.group(1) == "True" else "True") + text[e:]))
            out.append(("const_type", text[:s] + ("1" if m.group(1) == "True" else "0") + text[e:]))
    for m in _STR_RE.finditer(text):
        lit = m.group(0)
        out.append(("const_value", text[:m.start()] + lit[:-1] + "q" + lit[-1] + text[m.end():]))
    # collection literals: reorder / drop an entry  (innermost [..] or {..} outside strings)
    for a, b in _outside_strings(text):
        for m in re.finditer(r"[\[{]", text[a:b]):
            s = a + m.start()
            close = "]" if text[s] == "[" else "}"
            depth, q, j, e = 0, None, s, None
            while j < len(text):
                ch = text[j]
                if q:
                    if ch == "\\":
                        j += 1
                    elif ch == q:
                        q = None
                elif ch in "'\"":
                    q = ch
                elif ch == text[s]:
                    depth += 1
                elif ch == close:
                    depth -= 1
                    if depth == 0:
                        e = j
                        break
                j += 1
            if e is None:
                continue
            items = _split_items(text[s + 1:e])
            if len(items) >= 2:
                kind = "dict_order" if (text[s] == "{" and ":" in items[0]) else "list_order"
                out.append((kind, text[:s + 1] + ", ".join(reversed(items)) + text[e:]))
                out.append(("coll_drop", text[:s + 1] + ", ".join(items[:-1]) + text[e:]))
    return out


def step_mutants(step, join_types=("inner", "left", "right", "full", "cross", "outer")):
    """[(kind, new step)]: one argument of one builder call changed"""
    out = []
    call = step["call"]

    def w(kind, **kw):
        s = copy.deepcopy(step)
        s.update(kw)
        out.append((kind, s))

    if call in ("extend", "project"):
        ops = step.get("ops") or []
        for i, (k, v) in enumerate(ops):
            for kind, nv in text_mutants(v):
                w(kind, ops=ops[:i] + [[k, nv]] + ops[i + 1:])
        if len(ops) >= 2:
            w("ops_order", ops=list(reversed(ops)))
            w("ops_drop", ops=ops[:-1])
        if call == "project":
            g = step.get("group_by") or []
            if len(g) >= 2:
                w("group_order", group_by=list(reversed(g)))
            if g:
                w("group_drop", group_by=g[:-1])
        else:
            pb, ob, rv = step.get("partition_by"), step.get("order_by") or [], step.get("reverse") or []
            if isinstance(pb, list) and len(pb) >= 2:
                w("partition_order", partition_by=list(reversed(pb)))
            if isinstance(pb, list) and pb:
                w("partition_drop", partition_by=pb[:-1] if len(pb) > 1 else 1)
            if pb == 1:
                w("partition_one_vs_none", partition_by=None)
            if pb is None and not ob:
                w("partition_none_vs_one", partition_by=1)
            if len(ob) >= 2:
                w("order_by_order", order_by=list(reversed(ob)))
            if ob:
                w("reverse_toggle", reverse=([] if rv else [ob[0]]))
    elif call == "select_rows":
        for kind, nv in text_mutants(step["expr"]):
            w(kind, expr=nv)
    elif call in ("select_columns", "drop_columns"):
        cs = step["cols"]
        if len(cs) >= 2:
            w("cols_order", cols=list(reversed(cs)))
            w("cols_drop", cols=cs[:-1])
    elif call in ("rename_columns", "map_columns"):
        m = step["map"]
        if len(m) >= 2:
            w("map_order", map=list(reversed(m)))
            w("map_drop", map=m[:-1])
        if m and isinstance(m[0][1], str):
            w("map_name", map=[[m[0][0], m[0][1] + "_q"] if call == "map_columns" else [m[0][0] + "_q", m[0][1]]] + m[1:])
    elif call == "order_rows":
        cs, rv, lim = step["cols"], step.get("reverse") or [], step.get("limit")
        if len(cs) >= 2:
            w("order_cols_order", cols=list(reversed(cs)))
            w("order_cols_drop", cols=cs[:-1], reverse=[c for c in rv if c in cs[:-1]])
        if cs:
            w("reverse_toggle", reverse=([c for c in rv if c != cs[0]] if cs[0] in rv else rv + [cs[0]]))
        w("limit", limit=(3 if lim is None else lim + 1))
        if lim is not None:
            w("limit_none", limit=None)
    elif call == "natural_join":
        for jt in join_types:
            if jt.upper() != str(step["jointype"]).upper():
                w("jointype", jointype=jt)
        w("jointype_case", jointype=(step["jointype"].upper() if step["jointype"] != step["jointype"].upper()
                                     else step["jointype"].lower()))
        on = step.get("on") or []
        if len(on) >= 2:
            w("on_order", on=list(reversed(on)))
            w("on_drop", on=on[:-1])
    elif call == "concat_rows":
        w("concat_id", id_column=(None if step.get("id_column") else "src_q"))
        w("concat_a_name", a_name=step.get("a_name", "a") + "q")
        w("concat_b_name", b_name=step.get("b_name", "b") + "q")
    elif call == "convert_records":
        for side in ("blocks_in", "blocks_out"):
            spec = step.get(side)
            if not spec:
                continue
            ct = spec["control"]
            for r in range(len(ct["rows"])):
                for c in range(len(ct["cols"])):
                    v = ct["rows"][r][c]
                    if isinstance(v, dict) and "s" in v:
                        s2 = copy.deepcopy(spec)
                        s2["control"]["rows"][r][c] = {"s": v["s"] + "_q"}
                        w("recmap_cell", **{side: s2})
            if len(ct["rows"]) >= 2:
                s2 = copy.deepcopy(spec)
                s2["control"]["rows"] = list(reversed(ct["rows"]))
                w("recmap_row_order", **{side: s2})
            if len(ct["cols"]) >= 3:
                s2 = copy.deepcopy(spec)
                perm = [0] + list(range(len(ct["cols"]) - 1, 0, -1))
                s2["control"]["cols"] = [ct["cols"][j] for j in perm]
                s2["control"]["kinds"] = [ct["kinds"][j] for j in perm]
                s2["control"]["rows"] = [[row[j] for j in perm] for row in ct["rows"]]
                w("recmap_col_order", **{side: s2})
    return out


def _step_lists(pipe):
    """every list of steps of a Pipe, in a fixed traversal order"""
    if "src" in pipe:
        yield from _step_lists(pipe["src"])
    steps = pipe.get("steps")
    if steps is not None:
        for s in steps:
            if isinstance(s.get("b"), dict):
                yield from _step_lists(s["b"])
        yield steps


def pipe_mutants(pipe):
    """[(kind, new pipe)]"""
    out = []
    lists = list(_step_lists(pipe))
    for li, steps in enumerate(lists):
        for si, st in enumerate(steps):
            for kind, ns in step_mutants(st):
                q = copy.deepcopy(pipe)
                list(_step_lists(q))[li][si] = ns
                out.append((st["call"] + ":" + kind, q))
            if len(steps) >= 2 or li < len(lists) - 1:
                q = copy.deepcopy(pipe)
                del list(_step_lists(q))[li][si]
                out.append(("step_drop", q))
    return out


def _table_names(pipe):
    names = set()
    if "table" in pipe:
        names.add(pipe["table"])
    if "src" in pipe:
        names |= _table_names(pipe["src"])
    for st in pipe.get("steps", []):
        if isinstance(st.get("b"), dict):
            names |= _table_names(st["b"])
    return names


def table_mutants(tables, pipe):
    """[(kind, q_tables)]: another description of one input table"""
    out = []
    used = sorted(n for n in _table_names(pipe) if n in tables)
    for name in used:
        t = tables[name]
        n = len(t["cols"])
        q = copy.deepcopy(tables)
        q[name] = {"cols": t["cols"] + ["zq"], "kinds": t["kinds"] + ["int"], "rows": [r + [{"i": 0}] for r in t["rows"]]}
        out.append(("table_extra_column", q))
        if n >= 2:
            q = copy.deepcopy(tables)
            perm = [1, 0] + list(range(2, n))
            q[name] = {"cols": [t["cols"][j] for j in perm], "kinds": [t["kinds"][j] for j in perm],
                       "rows": [[r[j] for j in perm] for r in t["rows"]]}
            out.append(("table_column_order", q))
            q = copy.deepcopy(tables)
            q[name] = {"cols": t["cols"][:-1], "kinds": t["kinds"][:-1], "rows": [r[:-1] for r in t["rows"]]}
            out.append(("table_fewer_columns", q))
    return out


def flip_methods(ops):
    """toggle the `method` flag of every non-inline Expression of the (freshly built) pipeline, in place"""
    er = pipes.L.er
    seen = set()

    def ft(t):
        if isinstance(t, er.Expression):
            if not t.inline:
                t.method = not t.method
            for a in t.args:
                ft(a)

    def walk(n):
        if id(n) in seen:
            return
        seen.add(id(n))
        if n.node_name in ("ExtendNode", "ProjectNode"):
            for v in n.ops.values():
                ft(v)
        elif n.node_name == "SelectRowsNode":
            ft(n.expr)
        for s in n.sources:
            walk(s)

    walk(ops)
    return ops


# ------------------------------------------------------------------------------------------------
# the suite
# ------------------------------------------------------------------------------------------------

_SQL_MODELS = None


def sql_models():
    global _SQL_MODELS
    if _SQL_MODELS is None:
        import data_algebra.SQLite
        import data_algebra.PostgreSQL
        import data_algebra.BigQuery
        import data_algebra.MySQL
        import data_algebra.SparkSQL
        _SQL_MODELS = [("SQLiteModel", data_algebra.SQLite.SQLiteModel()),
                       ("PostgreSQLModel", data_algebra.PostgreSQL.PostgreSQLModel()),
                       ("BigQueryModel", data_algebra.BigQuery.BigQueryModel()),
                       ("MySQLModel", data_algebra.MySQL.MySQLModel()),
                       ("SparkSQLModel", data_algebra.SparkSQL.SparkSQLModel()),
                       # WITH form + CTE elimination (experimental option): the cache key contains the printed pipeline
                       ("PostgreSQLModel+cte_elim", _CteElim(data_algebra.PostgreSQL.PostgreSQLModel()))]
    return _SQL_MODELS


class _CteElim:
    """a model to be asked for `to_sql(..., use_with=True, use_cte_elim=True)`"""
    def __init__(self, model):
        self.model = model


def sql_text(model, ops):
    opt = pipes.L.SQLFormatOptions(annotate=False)
    if isinstance(model, _CteElim):
        model, opt = model.model, pipes.L.SQLFormatOptions(annotate=False, use_with=True, use_cte_elim=True)
    try:
        with warnings.catch_warnings():
            warnings.simplefilter("ignore")
            return {"sql": model.to_sql(ops, sql_format_options=opt)}
    except Exception as e:
        return {"err": type(e).__name__}


def load_corpus(suite_name):
    out = []
    for p in sorted(glob.glob(os.path.join(VERIF, "corpus", "C11", "*.json"))):
        o = json.load(open(p))
        if o.get("suite") == suite_name:
            out.append(o["case"])
    return out


def _norm_zero(pipe):
    return json.dumps(pipe, sort_keys=True).replace("-0.0", "0.0")


class K3Eq(Suite):
    """p == q on the real objects vs Eq.eqOps on their model trees; oracle on every pair the library calls equal"""
    name = "k3_eq"
    driver_suite = "k3_eq_c11"
    n_quick, n_thorough = 30, 250
    k_quick, k_thorough = 10, 24
    gen_opts = dict(fault_rate=0.0, hostile=True)

    def __init__(self):
        self.distribution = {}
        self._memo = {}
        self._sql_memo = {}
        self.build_errors = 0
        self.gen_errors = {}

    # -- building -------------------------------------------------------------------------------
    def _pair(self, case):
        key = id(case)
        hit = self._memo.get(key)
        if hit is not None and hit[0] is case:
            return hit[1]
        try:
            with warnings.catch_warnings():
                warnings.simplefilter("ignore")
                p = pipes.build(case["p"], case["tables"])
                q = pipes.build(case["q"], case.get("q_tables") or case["tables"])
                if case.get("flip"):
                    q = flip_methods(q)
            res = (p, q, None)
        except Exception as e:
            res = (None, None, type(e).__name__)
        if len(self._memo) > 64:
            self._memo.clear()
        self._memo[key] = (case, res)
        return res

    def _builds(self, case):
        p, q, err = self._pair(case)
        self._memo.pop(id(case), None)
        return err is None

    # -- generation -----------------------------------------------------------------------------
    def _const_step(self, rng, case):
        """a final extend with a list / dict constant over a column of a fitting kind (None if there is none)"""
        decl, kinds = case["meta"].get("declared") or [], case["meta"].get("kinds") or []
        ints = [c for c, k in zip(decl, kinds) if k == "int"]
        strs = [c for c, k in zip(decl, kinds) if k == "str"]
        flts = [c for c, k in zip(decl, kinds) if k == "float"]
        name = "zz" if "zz" not in decl else "zz2"
        cands = []
        if ints:
            c = rng.choice(ints)
            cands += [f"{c}.is_in([1, 2, 3])", f"{c}.is_in([0, 1])", f"{c}.mapv({{1: 10, 2: 20}}, 0)",
                      f"{c}.mapv({{1: 'u', 2: 'v'}}, 'w')"]
        if flts:
            c = rng.choice(flts)
            cands += [f"{c}.is_in([0.5, 1.0, 2.0])", f"{c}.mapv({{0.5: 1.0, 1.0: 2.0}}, 0.0)"]
        if strs:
            c = rng.choice(strs)
            cands += [f"{c}.is_in(['a', 'b'])", f"{c}.mapv({{'a': 1, 'b': 2}}, 0)", f"{c}.mapv({{'a': 'x', 'b': 'y'}}, 'z')"]
        if not cands:
            return None
        e = rng.choice(cands)
        if ".is_in(" in e and rng.random() < 0.4:
            return {"call": "select_rows", "expr": e}
        return {"call": "extend", "ops": [[name, e]], "partition_by": None, "order_by": None, "reverse": None}

    def gen(self, rng, tier):
        n = self.n_quick if tier == "quick" else self.n_thorough
        k = self.k_quick if tier == "quick" else self.k_thorough
        if True:
            for c in self.small_scope(band=(2 if tier == "quick" else None)):
                if self._builds(c):
                    self.distribution[c["kind"]] = self.distribution.get(c["kind"], 0) + 1
                    yield c
        for _ in range(n):
            r = random.Random(rng.getrandbits(64))
            try:
                base = pipes.gen_case(r, tier, **self.gen_opts)
            except Exception as e:  # the shared generator itself fell over (not a fact about the library): skip
                self.gen_errors[type(e).__name__] = self.gen_errors.get(type(e).__name__, 0) + 1
                self.distribution["generator_error"] = self.distribution.get("generator_error", 0) + 1
                continue
            tables, p = base["tables"], base["pipe"]
            if r.random() < 0.35:
                st = self._const_step(r, base)
                if st is not None:
                    p2 = {"src": p, "steps": [st]}
                    if self._builds({"tables": tables, "p": p2, "q": p2}):
                        p = p2
            if not self._builds({"tables": tables, "p": p, "q": p}):
                self.build_errors += 1
                continue
            out = [{"tables": tables, "p": p, "q": copy.deepcopy(p), "kind": "rebuild"},
                   {"tables": tables, "p": p, "q": copy.deepcopy(p), "kind": "method_flip", "flip": True}]
            muts = [{"tables": tables, "p": p, "q": q, "kind": kind} for kind, q in pipe_mutants(p)]
            muts += [{"tables": tables, "p": p, "q": copy.deepcopy(p), "q_tables": qt, "kind": kind}
                     for kind, qt in table_mutants(tables, p)]
            # prefer variety: one of each kind first, then random
            r.shuffle(muts)
            seen_k, first, rest = set(), [], []
            for m in muts:
                (rest if m["kind"] in seen_k else first).append(m)
                seen_k.add(m["kind"])
            taken = 0
            for m in first + rest:
                if taken >= k:
                    break
                if self._builds(m):
                    out.append(m)
                    taken += 1
            for c in out:
                self.distribution[c["kind"]] = self.distribution.get(c["kind"], 0) + 1
                yield c

    def small_scope(self, band=None):
        """every ordered pair of a family of small pipelines over one table (thorough: exhaustive; quick: only the
        pairs at most `band` apart in the list, i.e. a pipeline with its closest variants)"""
        T = {"d": {"cols": ["g", "x", "y", "u", "v"], "kinds": ["str", "int", "float", "int", "int"],
                   "rows": [[{"s": "a"}, {"i": 1}, {"f": [1, 2]}, {"i": 1}, {"i": 2}],
                            [{"s": "b"}, {"i": 2}, {"f": [3, 2]}, {"i": 3}, {"i": 4}],
                            [{"s": "a"}, {"i": 3}, {"f": [0, 1]}, {"i": 5}, {"i": 6}],
                            [{"s": "b"}, {"i": 1}, None, {"i": 7}, {"i": 8}]]}}

        def ext(ops, pb=None, ob=None, rv=None):
            return {"call": "extend", "ops": ops, "partition_by": pb, "order_by": ob, "reverse": rv}

        b = {"table": "d", "steps": [{"call": "select_columns", "cols": ["g", "u"]}]}
        fam = [[ext([["z", e]])] for e in
               ("x + 1", "x + 1.0", "x + 2", "x.is_in([1, 2])", "x.is_in([1, 3])", "x.is_in([1.0, 2.0])",
                "x.is_in([2, 1])", "x.is_in([1, 2, 3])", "x.mapv({1: 2, 3: 4}, 0)", "x.mapv({3: 4, 1: 2}, 0)",
                "x.mapv({1.0: 2, 3.0: 4}, 0)", "x.mapv({1: 2, 3: 5}, 0)", "x.mapv({1: 2, 3: 4}, 1)", "g == 'a'",
                "g == 'b'", "y + 0.5", "(x + 1) * 2", "x + 1 * 2")]
        # a window over the whole table (partition_by=1) next to the same un-windowed step, for operators that do not
        # themselves imply a window: only the node's windowed_situation flag tells the two apart
        fam[1:1] = [[ext([["z", "x + 1"]], 1)]]
        fam += [[ext([["z", "x.abs()"]])], [ext([["z", "x.abs()"]], 1)], [ext([["z", "x.abs()"]], ["g"])]]
        fam += [[ext([["u", "x + 1"], ["v", "x + 2"]])], [ext([["v", "x + 2"], ["u", "x + 1"]])],
                [ext([["u", "x + 1"]])], [ext([["u", "x + 1"]]), ext([["v", "x + 2"]])]]
        fam += [[ext([["z", "x.cumsum()"]], pb, ["x"], rv)] for pb in (["g"], ["g", "y"], ["y", "g"], 1)
                for rv in (None, ["x"])]
        fam += [[ext([["z", "x.sum()"]], pb)] for pb in (["g"], 1)]
        fam += [[{"call": "select_rows", "expr": e}] for e in ("x > 1", "x > 1.0", "x > 2", "x.is_in([1, 2])",
                                                              "x.is_in([2, 3])")]
        fam += [[{"call": "order_rows", "cols": c, "reverse": r, "limit": l}]
                for c, r, l in ((["x"], None, 2), (["x"], ["x"], 2), (["x"], None, 3), (["x", "y"], None, 2),
                                (["y", "x"], None, 2), (["x", "y"], ["y"], 2), (["x"], None, None))]
        fam += [[{"call": "select_columns", "cols": c}] for c in (["g", "x"], ["x", "g"], ["g", "x", "y"])]
        fam += [[{"call": "drop_columns", "cols": c}] for c in (["u", "v"], ["v", "u"], ["u"])]
        fam += [[{"call": "rename_columns", "map": m}] for m in ([["a", "x"], ["b", "y"]], [["b", "y"], ["a", "x"]],
                                                                 [["a", "x"]])]
        fam += [[{"call": "map_columns", "map": m}] for m in ([["x", "a"], ["y", "b"]], [["y", "b"], ["x", "a"]],
                                                              [["x", "a"], ["y", None]])]
        fam += [[{"call": "natural_join", "b": b, "on": ["g"], "jointype": jt, "check": False}]
                for jt in ("inner", "left", "LEFT", "right", "full", "outer", "cross")]
        fam += [[{"call": "concat_rows", "b": {"table": "d", "steps": []}, "id_column": i, "a_name": a, "b_name": "b"}]
                for i, a in ((None, "a"), ("src", "a"), ("src", "aa"))]
        fam += [[{"call": "project", "ops": o, "group_by": gb}]
                for o, gb in (([["s", "x.sum()"]], ["g"]), ([["s", "x.max()"]], ["g"]), ([["s", "x.sum()"]], []),
                              ([["s", "x.sum()"], ["m", "y.max()"]], ["g"]), ([["m", "y.max()"], ["s", "x.sum()"]], ["g"]),
                              ([["s", "x.sum()"]], ["g", "u"]), ([["s", "x.sum()"]], ["u", "g"]))]
        fam += [[]]
        pipes_ = [{"table": "d", "steps": st} for st in fam]

        # record maps with BOTH sides given (blocks -> blocks), differing in one side only
        def spec(cols, rows):
            return {"control": {"cols": cols, "kinds": ["str"] * len(cols), "rows": [[{"s": v} for v in r] for r in rows]},
                    "record_keys": ["k"], "control_keys": [cols[0]], "strict": True}

        T["e"] = {"cols": ["k", "measure", "value"], "kinds": ["int", "str", "int"],
                  "rows": [[{"i": 1}, {"s": "m1"}, {"i": 10}], [{"i": 1}, {"s": "m2"}, {"i": 20}],
                           [{"i": 2}, {"s": "m1"}, {"i": 30}], [{"i": 2}, {"s": "m2"}, {"i": 40}]]}
        bi = spec(["measure", "value"], [["m1", "a"], ["m2", "b"]])
        bi2 = spec(["measure", "value"], [["m1", "b"], ["m2", "a"]])
        for i_, o_ in ((bi, spec(["mk", "mv"], [["n1", "a"], ["n2", "b"]])), (bi, spec(["mk", "mv"], [["n1", "a"], ["n3", "b"]])),
                       (bi, spec(["mk", "mv"], [["n1", "b"], ["n2", "a"]])), (bi2, spec(["mk", "mv"], [["n1", "a"], ["n2", "b"]])),
                       (bi, spec(["mk", "mw"], [["n1", "a"], ["n2", "b"]])), (bi, None), (None, None)):
            if i_ is None and o_ is None:
                continue
            pipes_.append({"table": "e", "steps": [{"call": "convert_records", "blocks_in": i_, "blocks_out": o_}]})
        for i, p in enumerate(pipes_):
            for j, q in enumerate(pipes_):
                if band is not None and (abs(i - j) > (band if p["table"] == "d" else 5) or (i == j and i % 8)):
                    continue
                yield {"tables": T, "p": p, "q": copy.deepcopy(q), "kind": "small_scope" + ("_same" if i == j else "")}

    def corpus(self):
        return load_corpus(self.name)

    # -- implementation side --------------------------------------------------------------------
    def real(self, case):
        p, q, err = self._pair(case)
        if err is not None:
            return {"build_err": err}

        def eq(a, b):
            try:
                r = (a == b)
                return r if isinstance(r, bool) else ("non-bool:" + type(r).__name__)
            except Exception as e:
                return type(e).__name__

        return {"pq": eq(p, q), "qp": eq(q, p), "pp": eq(p, p)}

    def driver_case(self, case):
        p, q, err = self._pair(case)
        if err is not None:
            t = {"node": "table", "name": "none", "cols": ["x"]}
            return {"p": t, "q": t}
        return {"p": mt.to_model_tree(p), "q": mt.to_model_tree(q)}

    def agree(self, real_c, model_c):
        if isinstance(real_c, dict) and "build_err" in real_c:
            return True
        return super().agree(real_c, model_c)

    # -- property oracle (no model) -------------------------------------------------------------
    def oracle(self, case, real_out):
        if not isinstance(real_out, dict) or "build_err" in real_out:
            return None
        if "harness_exc" in real_out:
            return "harness: " + real_out["harness_exc"]
        pq, qp, pp = real_out["pq"], real_out["qp"], real_out["pp"]
        for nm, v in (("p == p", pp), ("p == q", pq), ("q == p", qp)):
            if not isinstance(v, bool):
                return f"eq-raises: {nm} gave {v} [{case.get('kind')}]"
        if pp is not True:
            return "not-reflexive: p == p is False"
        if pq != qp:
            return f"not-symmetric: p == q is {pq}, q == p is {qp} [{case.get('kind')}]"
        if case.get("kind") in ("rebuild", "small_scope_same") and not pq:
            return "copy-not-equal: the same calls on the same tables built a pipeline that is not == the first"
        if not pq:
            return None
        p, q, _ = self._pair(case)
        # the text for p is computed once per (tables, p) in this process and compared with a fresh text for every q
        # (the `rebuild` pairs check that an identical rebuild prints the identical text)
        pkey = json.dumps([{k: v["cols"] for k, v in case["tables"].items()}, case["p"]], sort_keys=True)
        if pkey not in self._sql_memo:
            if len(self._sql_memo) > 8:
                self._sql_memo.clear()
            self._sql_memo[pkey] = {name: sql_text(model, p) for name, model in sql_models()}
        for name, model in sql_models():
            a, b = self._sql_memo[pkey][name], sql_text(model, q)
            if a != b:
                return (f"sql-differs: p == q but {name}.to_sql differs [{case.get('kind')}]: "
                        + _first_diff(a.get("sql", a.get("err", "")), b.get("sql", b.get("err", ""))))
        run_tables = case.get("q_tables") or case["tables"]
        ra, rb = pipes.run_pandas(p, run_tables), pipes.run_pandas(q, run_tables)
        if ("err" in ra) != ("err" in rb):
            return f"result-differs: p == q but one side raised: {ra.get('err', 'ok')} vs {rb.get('err', 'ok')}"
        if "ok" in ra and "ok" in rb:
            why = pipes.same_table(ra["ok"], rb["ok"], ordered=True, col_order=True)
            if why:
                return f"result-differs: p == q but Pandas results differ [{case.get('kind')}]: {why}"
        return None

    def finding(self, case, real_out, why):
        if why.startswith("sql-differs") and _norm_zero(case["p"]) == _norm_zero(case["q"]) \
                and json.dumps(case["p"], sort_keys=True) != json.dumps(case["q"], sort_keys=True):
            return "C11-negative-zero-constant"
        if why.startswith("sql-differs") and "+cte_elim.to_sql differs" in why:
            # only under CTE elimination, and the pair differs in the printing form of an expression only
            return "C11-method-flag-cte-elim"
        return None

    def nontrivial(self, case, real_out):
        return isinstance(real_out, dict) and isinstance(real_out.get("pq"), bool) and \
            len(list(pipes.pipe_steps(case["p"]))) >= 2

    def shrink(self, case):
        # fewer rows (results), then the same main step dropped on both sides
        for name, t in case["tables"].items():
            n = len(t["rows"])
            if n and not case.get("q_tables"):
                for rows in ([], t["rows"][: n // 2], t["rows"][n // 2:]):
                    if len(rows) < n:
                        c = dict(case)
                        c["tables"] = dict(case["tables"])
                        c["tables"][name] = dict(t, rows=rows)
                        yield c
        lp, lq = list(_step_lists(case["p"])), list(_step_lists(case["q"]))
        if len(lp) == len(lq):
            for li in range(len(lp)):
                if len(lp[li]) == len(lq[li]):
                    for si in range(len(lp[li]) - 1, -1, -1):
                        if lp[li][si] == lq[li][si]:
                            c = copy.deepcopy(case)
                            del list(_step_lists(c["p"]))[li][si]
                            del list(_step_lists(c["q"]))[li][si]
                            yield c


def _first_diff(a, b):
    la, lb = str(a).split("\n"), str(b).split("\n")
    for x, y in zip(la, lb):
        if x != y:
            return repr(x.strip()[:80]) + " vs " + repr(y.strip()[:80])
    return f"lengths {len(la)} vs {len(lb)} lines"


SUITES = [K3Eq()]
