"""C10 — Columns not reported as used never influence a pipeline's result
(view_representations.py: columns_used / columns_used_implementation_ / columns_used_from_sources)."""
import copy
import glob
import json
import os
import random
import warnings

from .. import modeltree as mt
from .. import pipes
from ..core import Suite, VERIF

PROPERTY = "C10"
LEAN_MODULES = ["DAVerif.Props.C10"]
THEOREMS = [
    "DAVerif.C10.node_used_sound_extend_plain",
    "DAVerif.C10.node_used_sound_extend_window",
    "DAVerif.C10.node_used_sound_project",
    "DAVerif.C10.node_used_sound_select_rows",
    "DAVerif.C10.node_used_sound_order",
    "DAVerif.C10.node_used_sound_select_columns",
    "DAVerif.C10.node_used_sound_drop_columns",
    "DAVerif.C10.node_used_sound_rename",
    "DAVerif.C10.node_used_sound_map_columns",
    "DAVerif.C10.node_used_sound_join",
    "DAVerif.C10.node_used_sound_concat",
    "DAVerif.C10.node_used_sound_convert",
    "DAVerif.C10.C10_run_agree",
    "DAVerif.C10.C10_run_sound",
    "DAVerif.C10.C10_run_narrow",
    "DAVerif.C10.C10_columns_used_agree",
    "DAVerif.C10.C10_columns_used_sound",
    "DAVerif.C10.C10_columns_used_shared_sound",
    "DAVerif.C10.C10_narrow_sound",
    "DAVerif.C10.C10_narrow_shared_sound",
    "DAVerif.C10.C10_narrow_ok",
    "DAVerif.C10.C10_narrow_column_order_witness",
    "DAVerif.C10.C10_window_tie_break_necessary",
    "DAVerif.C10.C10_reachable_wf",
    "DAVerif.C10.C10_columns_used_total",
    "DAVerif.C10.C10_reachable_sound",
]
ASSUMPTIONS = [
    "the relational model `sem` (Sem/Eval.lean) is the Pandas executor: validated by suite k4_sem for window "
    "orderings that are total inside each partition; with ties the executor breaks them by the value columns of every "
    "op of the step, `sem` by input position (finding C10-window-tie-break)",
    "record transforms (convert_records) are abstract: assumed to return their declared columns (ConvertOK) and to read "
    "only the record map's columns_needed (ConvertLocal)",
    "scalar, aggregate and window functions are arbitrary (the theorems hold for every interpretation)",
    "column names of every table description are distinct; rename / map_columns arguments are dicts (no repeated key)",
    "a shared Python node object (DAG) accumulates the requests of all its users, so the real report is a superset of "
    "the tree-shaped report the model computes; soundness is monotone in the report",
]
NOT_PROVEN = [
    "soundness for the executor's own tie-break (sort key = partition, order, value columns of every op): false, "
    "see C10_window_tie_break_necessary; not proven under the guard 'window orders total inside partitions' for that "
    "sort key (the shared model sorts by the order columns only)",
    "SQL back ends: the SQLite comparison of this check is sampled only (the SQL generator's pruning is C01's subject)",
    "that the builders accept the narrowed pipeline (they often do not: drop_columns / map_columns deletions of an "
    "unreported column raise); the theorem is about the narrowed operator tree",
]
LEVEL_TEXT = ("Kernel-checked for every pipeline, every input and every interpretation of the function symbols: per node "
              "kind, evaluating on the source restricted to what columns_used_from_sources asks for gives the same "
              "requested columns; if columns_used reports U, two inputs that agree on U (same tables, columns, row "
              "count and order) give equal results, and the pipeline narrowed to U on inputs restricted to U gives the "
              "same result column by column (the declared column *order* can change - witness proved). Every pipeline "
              "the builders produce satisfies the structural hypotheses and columns_used never raises on it. The model "
              "of columns_used is compared with the real columns_used on random pipelines on every run (equal for "
              "trees, subset for shared DAGs); a perturbation / narrowing oracle on the real Pandas and SQLite "
              "executors searches for failing inputs. One known finding: ties in a window order.")
LEVEL_NOTE = ("Trusted: Lean kernel; axioms propext/Classical.choice/Quot.sound; the hand-written operator-layer model "
              "(Ops/Compose.lean, Sem/Eval.lean) tied to /repo by suites k3_used (this check) and k2_build/k4_sem; "
              "abstract record transforms.")
RULE = ("k3_used: pipes.gen_case pipelines (no malformed step; depth 1-8 / -14 thorough; 1-3 tables; shared sub-DAGs; "
        "30 % of the cases allow ties in window orders) plus 60 (thorough 600) property-directed cases (ordered "
        "window with a dropped op over an order column with/without ties; join on differently named keys whose right "
        "key is removed afterwards), each with 2 (thorough 3) seeded perturbations of every "
        "unreported input column (values of the same kind, nulls, all-null, reversed) and one narrowing; distinct by "
        "canonical JSON; non-trivial = the pipeline builds, the Pandas result has rows and some input column is unreported")

FINDING_TIES = "C10-window-tie-break"
FINDING_TYPECHECK = "C10-all-null-type-check"
# messages of the run-time type checks that read a column's type through util.guess_carried_scalar_type
TYPECHECK_MESSAGES = ("incompatible column types", "can't compare", "can't check for an", "can't map")


def raise_message(ops, tables):
    """message of the exception the Pandas executor raises on these inputs ('' when it returns)"""
    try:
        with warnings.catch_warnings():
            warnings.simplefilter("ignore")
            ops.eval(pipes.tables_to_pandas(tables))
        return ""
    except Exception as e:
        return (type(e).__name__ + ": " + str(e))[:200]


def load_corpus(suite_name):
    out = []
    for p in sorted(glob.glob(os.path.join(VERIF, "corpus", "C10", "*.json"))):
        o = json.load(open(p))
        if o.get("suite") == suite_name:
            out.append(o["case"])
    return out


# ------------------------------------------------------------------------------------------------
# helpers on the real library
# ------------------------------------------------------------------------------------------------

def _build(case, tables=None):
    with warnings.catch_warnings():
        warnings.simplefilter("ignore")
        return pipes.build(case["pipe"], case["tables"] if tables is None else tables)


def real_used(ops):
    """ops.columns_used() as {table: sorted list}; error -> {"err": class}"""
    try:
        with warnings.catch_warnings():
            warnings.simplefilter("ignore")
            u = ops.columns_used()
        return {"ok": {k: sorted(v) for k, v in u.items()}}
    except Exception as e:
        return {"err": type(e).__name__}


POOLS = {"int": [0, 1, 2, 3, -1, 5, 7, -4], "float": [0.5, 1.5, 2.5, -0.5, 1.0, 2.0, 0.0, -1.5, 4.5],
         "str": ["a", "b", "c", "d", "", "zz", "q"], "bool": [True, False]}


def perturb_tables(tables, used, seed, mode=None):
    """new input tables that agree with `tables` on every reported column (same rows, same order) and differ in the
    unreported ones: values of the same kind from a pool, nulls, all-null, the column reversed or rotated.
    The perturbation keeps the column's kind AND its pandas dtype (Appendix B, C10: "perturbations keep each column's
    kind"): an int column without nulls stays null-free (a null would turn int64 into float64), a bool column stays
    null-free, a str column keeps at least one string unless it had none (all-null str columns are `object`)."""
    rng = random.Random(seed)
    out = {}
    changed = 0
    for name, t in tables.items():
        keep = set(used.get(name, t["cols"]))
        rows = [list(r) for r in t["rows"]]
        n = len(rows)
        for j, (c, k) in enumerate(zip(t["cols"], t["kinds"])):
            if c in keep:
                continue
            m = mode or rng.choice(["values", "values", "nulls", "allnull", "reverse", "shift"])
            old = [r[j] for r in rows]
            had_null = any(v is None for v in old)
            all_null = all(v is None for v in old)
            nulls_ok = (k == "float") or (k in ("int", "str") and had_null)
            fresh = lambda: pipes.enc_val(rng.choice(POOLS[k]), k)
            if all_null and k != "float":
                new = list(old)            # an all-null int/str/bool column has its own dtype: leave it
            elif m == "values" or (m in ("nulls", "allnull") and not nulls_ok):
                new = [fresh() for _ in range(n)]
            elif m == "nulls":
                new = [None if rng.random() < 0.5 else fresh() for _ in range(n)]
                if k == "str" and n and all(v is None for v in new):
                    new[0] = fresh()
                if k == "int" and n and not any(v is None for v in new):
                    new[0] = None          # keep the column float64
            elif m == "allnull":
                new = [None] * n if k == "float" else [None if i else fresh() for i in range(n)]
                if k == "int" and n == 1:
                    new = [None] if had_null and False else list(old)
            elif m == "reverse":
                new = list(reversed(old))
            else:
                new = old[1:] + old[:1]
            if k == "int" and had_null and n and not any(v is None for v in new):
                new[rng.randrange(n)] = None   # stays float64
            if k == "int" and had_null and n and all(v is None for v in new) and not all_null:
                new = list(old)
            if new != old:
                changed += 1
            for i in range(n):
                rows[i][j] = new[i]
        out[name] = {"cols": list(t["cols"]), "kinds": list(t["kinds"]), "rows": rows}
    return out, changed


def narrow_tables(tables, used):
    """tables restricted to the reported columns (own order); None when a table would lose every column"""
    out = {}
    for name, t in tables.items():
        keep = [j for j, c in enumerate(t["cols"]) if c in set(used.get(name, t["cols"]))]
        if not keep:
            return None
        out[name] = {"cols": [t["cols"][j] for j in keep], "kinds": [t["kinds"][j] for j in keep],
                     "rows": [[r[j] for j in keep] for r in t["rows"]]}
    return out


def _nodes(ops, seen=None, out=None):
    seen = set() if seen is None else seen
    out = [] if out is None else out
    if id(ops) in seen:
        return out
    seen.add(id(ops))
    for s in ops.sources:
        _nodes(s, seen, out)
    out.append(ops)
    return out


ROW_CAP = 20000


def row_bound(ops, tables, memo=None):
    """static upper bound on the number of rows a node can produce (joins multiply, concats add); the oracle is
    skipped for pipelines that could blow up (thorough tier: 24-row tables, up to 14 steps with repeated joins)"""
    memo = {} if memo is None else memo
    if id(ops) in memo:
        return memo[id(ops)]
    nn = ops.node_name
    if nn == "TableDescription":
        t = tables.get(ops.table_name)
        r = len(t["rows"]) if t is not None else 0
    else:
        kids = [row_bound(s, tables, memo) for s in ops.sources]
        if nn == "NaturalJoinNode":
            r = kids[0] * kids[1] + kids[0] + kids[1]
        elif nn == "ConcatRowsNode":
            r = kids[0] + kids[1]
        elif nn == "ConvertRecordsNode":
            r = kids[0] * 8
        elif nn == "OrderRowsNode" and ops.limit is not None:
            r = min(kids[0], int(ops.limit))
        else:
            r = kids[0]
    memo[id(ops)] = r
    return r


def window_ties(ops, table_sets):
    """does some ordered windowed extend of the pipeline see, on one of the given inputs, two rows of one partition
    that tie on the order columns?  (guard of the known finding; evaluated on the real executor)"""
    for node in _nodes(ops):
        if node.node_name != "ExtendNode" or len(node.order_by) == 0:
            continue
        keys = list(dict.fromkeys(list(node.partition_by) + list(node.order_by)))
        for tables in table_sets:
            try:
                with warnings.catch_warnings():
                    warnings.simplefilter("ignore")
                    d = node.sources[0].eval(pipes.tables_to_pandas(tables))
                if d.shape[0] > 1 and bool(d.duplicated(subset=keys).any()):
                    return True
            except Exception:
                return True   # cannot decide: do not claim the case is inside the guard
    return False


# ------------------------------------------------------------------------------------------------
# property-directed cases: a node needs a column for its own work that its consumer does not ask for
# ------------------------------------------------------------------------------------------------

W_OPS = ["cumsum", "cummax", "cummin"]


def directed_window(rng):
    """ordered window with two ops over different columns, one of them dropped afterwards; the order column comes
    from a tiny pool (ties are frequent: the known finding) or is a unique id (no ties)"""
    n = rng.randint(2, 6)
    unique_order = rng.random() < 0.4
    o = rng.sample(range(1, n + 3), n) if unique_order else [rng.choice([1, 2]) for _ in range(n)]
    rows = [[o[i], rng.choice(["a", "b"]), rng.choice([1, 2, 3, 5, 10]), rng.choice([1, 2, 3, 4, 7]), i + 1]
            for i in range(n)]
    t = pipes.mk_table(["o", "g", "x", "w", "i"], ["int", "str", "int", "int", "int"], rows)
    part = ["g"] if rng.random() < 0.4 else None
    ext = {"call": "extend", "ops": [["z", "w.%s()" % rng.choice(W_OPS)], ["y", "x.%s()" % rng.choice(W_OPS)]],
           "partition_by": part, "order_by": ["o"], "reverse": (["o"] if rng.random() < 0.3 else None)}
    if rng.random() < 0.5:
        ext["ops"].reverse()
    how = rng.choice(["select", "drop", "select_i"])
    if how == "select":
        tail = {"call": "select_columns", "cols": ["y"]}
    elif how == "select_i":
        tail = {"call": "select_columns", "cols": ["i", "y"]}
    else:
        tail = {"call": "drop_columns", "cols": ["z"]}
    return {"tables": {"d": t}, "pipe": {"table": "d", "steps": [ext, tail]}}


def directed_join(rng):
    """join on differently named keys, then a step that removes the right key (and possibly the left one)"""
    na, nb = rng.randint(1, 5), rng.randint(1, 5)
    ta = pipes.mk_table(["k", "x", "y"], ["int", "int", "float"],
                        [[rng.choice([1, 2, 3]), rng.choice([0, 1, 5]), rng.choice([0.5, 1.5, 2.5])] for _ in range(na)])
    tb = pipes.mk_table(["j", "u", "v"], ["int", "int", "str"],
                        [[rng.choice([1, 2, 3]), rng.choice([7, 8, 9]), rng.choice(["a", "b", "c"])] for _ in range(nb)])
    join = {"call": "natural_join", "b": {"table": "e", "steps": []}, "on": [["k", "j"]],
            "jointype": rng.choice(["inner", "left", "right", "full"]), "check": False}
    tail = rng.choice([{"call": "select_columns", "cols": ["x", "u"]}, {"call": "select_columns", "cols": ["k", "x", "u"]},
                       {"call": "drop_columns", "cols": ["j"]}, {"call": "select_columns", "cols": ["u"]},
                       {"call": "project", "ops": [["s", "u.sum()"]], "group_by": ["x"]}])
    return {"tables": {"d": ta, "e": tb}, "pipe": {"table": "d", "steps": [join, tail]}}


# ------------------------------------------------------------------------------------------------
# the suite
# ------------------------------------------------------------------------------------------------

class K3Used(Suite):
    """correspondence: real columns_used vs Ops.columnsUsed; oracle: perturb unreported columns / narrow"""
    name = "k3_used"
    n_quick, n_thorough = 450, 4000
    gen_opts = dict(fault_rate=0.0)

    def __init__(self):
        self.distribution = {"cases": 0, "tree_shaped": 0, "dag_shaped": 0, "with_unreported": 0, "tie_cases": 0,
                             "perturbed_runs": 0, "perturbed_columns": 0, "narrow_built": 0, "narrow_build_rejected": 0,
                             "narrow_empty_table": 0, "pandas_err": 0, "sqlite_compared": 0, "calls": {}}

    # ---- generation ---------------------------------------------------------------------------
    def gen(self, rng, tier):
        n = self.n_quick if tier == "quick" else self.n_thorough
        for _ in range(n):
            r = random.Random(rng.getrandbits(64))
            ties = r.random() < 0.3
            opts = dict(self.gen_opts, total_order=not ties)
            if r.random() < 0.5:
                opts["convert_records"] = 0.0
            try:
                case = pipes.gen_case(r, tier, **opts)
            except Exception:   # the shared generator is another agent's snapshot: a crash there is not a case
                self.distribution["generator_errors"] = self.distribution.get("generator_errors", 0) + 1
                continue
            for c in case["meta"].get("calls", []):
                self.distribution["calls"][c] = self.distribution["calls"].get(c, 0) + 1
            yield {"tables": case["tables"], "pipe": case["pipe"],
                   "pseeds": [r.getrandbits(32) for _ in range(2 if tier == "quick" else 3)]}
        for i in range(60 if tier == "quick" else 600):
            r = random.Random(rng.getrandbits(64))
            case = directed_window(r) if i % 2 == 0 else directed_join(r)
            self.distribution["directed"] = self.distribution.get("directed", 0) + 1
            yield dict(case, pseeds=[r.getrandbits(32) for _ in range(3)])

    def corpus(self):
        return load_corpus(self.name)

    # ---- the implementation -------------------------------------------------------------------
    def real(self, case):
        try:
            ops = _build(case)
        except Exception as e:
            return {"build_err": type(e).__name__}
        used = real_used(ops)
        out = {"used": used, "tree": bool(mt.is_tree_shaped(ops))}
        self.distribution["cases"] += 1
        self.distribution["tree_shaped" if out["tree"] else "dag_shaped"] += 1
        if "ok" not in used:
            return out
        U = used["ok"]
        tables = case["tables"]
        unreported = {k: [c for c in t["cols"] if c not in set(U.get(k, t["cols"]))] for k, t in tables.items()}
        out["unreported"] = {k: v for k, v in unreported.items() if v}
        if out["unreported"]:
            self.distribution["with_unreported"] += 1
        if row_bound(ops, tables) > ROW_CAP:
            self.distribution["skipped_row_bound"] = self.distribution.get("skipped_row_bound", 0) + 1
            out["base"] = "skipped: row bound"
            return out
        base = pipes.run_pandas(ops, tables)
        out["base"] = "ok" if "ok" in base else base
        if "ok" not in base:
            self.distribution["pandas_err"] += 1
            return out
        out["rows"] = len(base["ok"]["rows"])
        fails = []
        tsets = [tables]
        base_sql = None
        # (a) perturb every unreported column
        if out["unreported"]:
            for i, seed in enumerate(case.get("pseeds", [1, 2])):
                mode = case.get("pmode")
                pt, changed = perturb_tables(tables, U, seed, mode)
                if not changed:
                    continue
                tsets.append(pt)
                self.distribution["perturbed_runs"] += 1
                self.distribution["perturbed_columns"] += changed
                res = pipes.run_pandas(ops, pt)
                why = pipes.same_outcome(base, res, ordered=True, col_order=True)
                if why:
                    f = {"kind": "perturb-pandas", "seed": seed, "why": why[:300]}
                    if "err" in res:
                        f["message"] = raise_message(ops, pt)
                    fails.append(f)
                    break
                if i == 0:
                    if base_sql is None:
                        base_sql = pipes.run_sqlite(ops, tables)
                    if "ok" in base_sql:
                        rs = pipes.run_sqlite(ops, pt)
                        self.distribution["sqlite_compared"] += 1
                        why = pipes.same_outcome(base_sql, rs, ordered=False)
                        if why:
                            fails.append({"kind": "perturb-sqlite", "seed": seed, "why": why[:300]})
                            break
        # (b) narrow the table descriptions and the inputs to the reported columns
        if out["unreported"] and not fails:
            nt = narrow_tables(tables, U)
            if nt is None:
                self.distribution["narrow_empty_table"] += 1
                out["narrow"] = "empty-table"
            else:
                try:
                    nops = _build(case, nt)
                except Exception as e:
                    nops = None
                    out["narrow"] = "rejected:" + type(e).__name__
                    self.distribution["narrow_build_rejected"] += 1
                if nops is not None:
                    self.distribution["narrow_built"] += 1
                    out["narrow"] = "built"
                    out["narrow_cols_same_order"] = list(nops.column_names) == list(ops.column_names)
                    res = pipes.run_pandas(nops, nt)
                    why = pipes.same_outcome(base, res, ordered=True, col_order=False)
                    if why:
                        f = {"kind": "narrow-pandas", "why": why[:300]}
                        if "err" in res:
                            f["message"] = raise_message(nops, nt)
                        fails.append(f)
                    # the narrowed pipeline must not ask for more than it was given
                    nu = real_used(nops)
                    if "ok" in nu:
                        for k, cols in nu["ok"].items():
                            extra = sorted(set(cols) - set(U.get(k, [])))
                            if extra:
                                fails.append({"kind": "narrow-report", "why": f"narrowed pipeline reports {k}:{extra}"})
        if fails:
            out["fails"] = fails
            out["ties"] = window_ties(ops, tsets)
            if out["ties"]:
                self.distribution["tie_cases"] += 1
        return out

    # ---- model side -----------------------------------------------------------------------------
    def driver_case(self, case):
        try:
            ops = _build(case)
        except Exception:
            return {"ops": {"node": "table", "name": "none", "cols": ["x"]}}
        return {"ops": mt.to_model_tree(ops)}

    def real_canon(self, out, case=None):
        if not isinstance(out, dict) or "harness_exc" in out:
            return out
        if "build_err" in out:
            return {"skip": True}
        return {"used": out["used"], "tree": out["tree"]}

    def model_canon(self, out, case=None):
        if isinstance(out, dict) and "ok" in out:
            return {"ok": {k: sorted(v) for k, v in out["ok"].items()}}
        return out

    def agree(self, real_c, model_c):
        if isinstance(real_c, dict) and real_c.get("skip"):
            return True
        if not isinstance(real_c, dict) or "used" not in real_c:
            return False
        ru = real_c["used"]
        if "err" in ru or "err" in (model_c or {}):
            return "err" in ru and "err" in (model_c or {}) and ru["err"] == model_c["err"]
        if not isinstance(model_c, dict) or "ok" not in model_c:
            return False
        r, m = ru["ok"], model_c["ok"]
        if set(r) != set(m):
            return False
        if real_c["tree"]:
            return all(sorted(r[k]) == sorted(m[k]) for k in r)
        # a shared node object accumulates the requests of all its users and passes the ACCUMULATED record on; the
        # report is then neither a subset nor a superset of the tree report (an extend asked for none of its
        # products requests every source column).  DAG-shaped pipelines are compared exactly by suite k3_used_dag.
        self.distribution["dag_not_compared_here"] = self.distribution.get("dag_not_compared_here", 0) + 1
        return True

    # ---- oracle -----------------------------------------------------------------------------------
    def oracle(self, case, real_out):
        if not isinstance(real_out, dict):
            return "harness: no outcome"
        if "harness_exc" in real_out:
            return "harness: " + real_out["harness_exc"]
        for f in real_out.get("fails", []):
            return f"{f['kind']}: unreported columns {real_out.get('unreported')} - {f['why']}"
        return None

    def finding(self, case, real_out, why):
        kind = why.split(":")[0]
        fails = real_out.get("fails") or [{}]
        msg = fails[0].get("message", "")
        if kind in ("perturb-pandas", "narrow-pandas") and any(m in msg for m in TYPECHECK_MESSAGES):
            # run-time type checks (join / concat compatibility, ==, !=, is_in) read the type of an all-null column
            # off its null marker; they also run on common columns / dead ops nobody asked for
            return FINDING_TYPECHECK
        if kind in ("perturb-pandas", "narrow-pandas") and real_out.get("ties") and "message" not in fails[0]:
            return FINDING_TIES
        return None

    def nontrivial(self, case, real_out):
        return (isinstance(real_out, dict) and real_out.get("base") == "ok" and real_out.get("rows", 0) > 0
                and bool(real_out.get("unreported")))

    def shrink(self, case):
        for c in pipes.shrink_case({"tables": case["tables"], "pipe": case["pipe"]}):
            yield {"tables": c["tables"], "pipe": c["pipe"], "pseeds": case.get("pseeds", [1, 2]),
                   **({"pmode": case["pmode"]} if "pmode" in case else {})}
        if len(case.get("pseeds", [])) > 1:
            for s in case["pseeds"]:
                yield dict(case, pseeds=[s])


def ids_tree(ops, idmap=None):
    """object identities parallel to modeltree.to_model_tree: one small number per Python node object"""
    idmap = {} if idmap is None else idmap
    i = idmap.setdefault(id(ops), len(idmap))
    return {"id": i, "kids": [ids_tree(s, idmap) for s in ops.sources]}


class K3UsedDag(Suite):
    """correspondence only: real columns_used vs Ops.columnsUsedShared (per-object accumulation records), every shape"""
    name = "k3_used_dag"
    n_quick, n_thorough = 700, 6000

    def __init__(self):
        self.distribution = {"cases": 0, "tree_shaped": 0, "dag_shaped": 0, "differs_from_tree_report": 0}

    def gen(self, rng, tier):
        n = self.n_quick if tier == "quick" else self.n_thorough
        for _ in range(n):
            r = random.Random(rng.getrandbits(64))
            try:
                case = pipes.gen_case(r, tier, fault_rate=0.0, shared=0.9)
            except Exception:
                self.distribution["generator_errors"] = self.distribution.get("generator_errors", 0) + 1
                continue
            yield {"tables": {k: {"cols": v["cols"], "kinds": v["kinds"], "rows": []} for k, v in case["tables"].items()},
                   "pipe": case["pipe"]}
        # a node shared by two users that ask for disjoint columns (the tree report is larger)
        yield {"tables": {"d": {"cols": ["h", "i", "k"], "kinds": ["int", "int", "int"], "rows": []}},
               "pipe": {"src": {"def": 1, "table": "d", "steps": [
                   {"call": "extend", "ops": [["v", "h + 1"]], "partition_by": None, "order_by": None, "reverse": None}]},
                   "steps": [{"call": "natural_join", "jointype": "inner", "on": [["i", "i2"]], "check": False,
                              "b": {"src": {"ref": 1}, "steps": [{"call": "select_columns", "cols": ["i"]},
                                                                 {"call": "rename_columns", "map": [["i2", "i"]]}]}},
                             {"call": "select_columns", "cols": ["v", "i2"]}]}}

    def real(self, case):
        try:
            ops = _build(case)
        except Exception as e:
            return {"build_err": type(e).__name__}
        tree = bool(mt.is_tree_shaped(ops))
        self.distribution["cases"] += 1
        self.distribution["tree_shaped" if tree else "dag_shaped"] += 1
        return {"used": real_used(ops), "tree": tree}

    def driver_case(self, case):
        try:
            ops = _build(case)
        except Exception:
            return {"ops": {"node": "table", "name": "none", "cols": ["x"]}, "ids": {"id": 0, "kids": []}}
        return {"ops": mt.to_model_tree(ops), "ids": ids_tree(ops)}

    def real_canon(self, out, case=None):
        if not isinstance(out, dict) or "harness_exc" in out:
            return out
        if "build_err" in out:
            return {"skip": True}
        return out["used"]

    def model_canon(self, out, case=None):
        if isinstance(out, dict) and "ok" in out:
            return {"ok": {k: sorted(v) for k, v in out["ok"].items()}}
        return out

    def agree(self, real_c, model_c):
        if isinstance(real_c, dict) and real_c.get("skip"):
            return True
        return super().agree(real_c, model_c)

    def nontrivial(self, case, real_out):
        return isinstance(real_out, dict) and real_out.get("tree") is False

    def shrink(self, case):
        for c in pipes.shrink_case({"tables": case["tables"], "pipe": case["pipe"]}):
            yield {"tables": c["tables"], "pipe": c["pipe"]}


SUITES = [K3Used(), K3UsedDag()]
