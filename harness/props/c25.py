"""C25 — The evaluation result cache is transparent  (data_algebra/eval_cache.py)."""
import glob
import hashlib
import itertools
import json
import os

from ..core import Suite, VERIF

PROPERTY = "C25"
LEAN_MODULES = ["DAVerif.Props.C25"]
THEOREMS = [
    "DAVerif.EvalCache.key_encoding_injective",
    "DAVerif.EvalCache.C25_key_sound",
    "DAVerif.EvalCache.C25_key_iff",
    "DAVerif.EvalCache.C25_frame_hash_partial",
    "DAVerif.EvalCache.C25_frame_key_partial",
    "DAVerif.EvalCache.C25_Gdtype_necessary",
    "DAVerif.EvalCache.C25_Gobj_necessary",
    "DAVerif.EvalCache.C25_refines",
    "DAVerif.EvalCache.C25_get_outcome",
    "DAVerif.EvalCache.C25_get_after_store",
    "DAVerif.EvalCache.C25_copy_isolation",
    "DAVerif.EvalCache.C25_only_store_changes",
]
ASSUMPTIONS = [
    "ASSUMED, not proven: SHA-256 over pandas.util.hash_pandas_object (SipHash of string cells, per-row mixing, "
    "SHA-256 of the uint64 array) is collision-free on its input (hypotheses hsha / hinj of the key theorems)",
    "what hash_pandas_object feeds into the digest is the model's hash view: 8-byte patterns of numeric cells "
    "(dtype not included), text of str/object cells (non-string object cells as str(cell)), missing marker, index "
    "labels; nothing when there are no rows (validated by suite evalcache_pair on every run)",
    "CPython's repr of a tuple of ints and of a list of str (unicode_repr: quote choice, escapes); the Unicode "
    "'printable' predicate is an input of the model (taken from str.isprintable), the theorems hold for any predicate",
    "DataFrame.copy() yields an object whose later in-place changes are not visible through the original and vice "
    "versa; DataFrame.equals = same labels, index values, dtypes and cells (NaN = NaN, 0.0 = -0.0, None = NaN)",
    "column labels and table names are str; data maps are dicts (no repeated key)",
]
NOT_PROVEN = [
    "collision-freeness of SHA-256 / SipHash / pandas' row mixing (hypothesis)",
    "frames outside the modelled universe (dtypes other than int64 float64 bool str object; bool/float cells inside "
    "object columns; non-integer or multi-level indexes) are neither generated nor covered by C25_frame_key_partial",
]
LEVEL_TEXT = ("Twelve theorems are kernel-checked for all inputs and all histories: the f-string key determines "
              "shape, column-name list and digest for arbitrary names; cache keys are equal iff dialect, SQL and "
              "data maps agree (for any digest injective up to the chosen equality; for concrete frames under two "
              "guards whose necessity is proved); every store/get history refines a plain map, get succeeds exactly "
              "on stored keys and returns a fresh object equal to the last stored value; no in-place change of a "
              "caller-held frame changes the cache. The model is tied to eval_cache.py by three correspondence "
              "suites (literal key text, key sharing of frame pairs, histories with mutation); independent "
              "plain-Python oracles search for failing inputs. Two known findings: the key ignores dtypes, and "
              "object cells are hashed as text.")
LEVEL_NOTE = ("Trusted: Lean kernel; axioms propext/Classical.choice/Quot.sound; the hand-written model of eval_cache.py, "
              "of CPython's repr and of what hash_pandas_object consumes (validated by the correspondence suites on "
              "every run); pandas copy/equals semantics. Assumed: SHA-256/hash_pandas_object collision-free.")
RULE = ("evalcache_key: random data maps of 1..3 tables whose column names come from a hostile pool (underscores, "
        "quotes, commas, brackets, backslashes, control, non-ASCII, non-printable); evalcache_pair: a random frame over "
        "5 dtypes and a one-step variant (value, column name, shape, row order, column order, index, dtype, null, "
        "signed zero) or an unrelated frame; evalcache: histories of 3..30 operations (new/store/get/setcell/addcol/"
        "data_off, 4% malformed) over small pools of dialects, SQL texts, table names and frames; thorough adds all "
        "histories of length <= 4 over a 7-operation alphabet. non-trivial = key suite: a name needing an escape or "
        ">= 2 tables; pair suite: the frames differ; history suite: at least one cache hit and one mutation or miss")


# ------------------------------------------------------------------------------------------------
# frames over the wire
# ------------------------------------------------------------------------------------------------

def build_frame(fj):
    import numpy as np
    import pandas as pd
    idx = pd.Index(fj["index"], dtype="int64")
    series = []
    for c in fj["cols"]:
        t, v = c["t"], c["v"]
        if t == "int64":
            s = pd.Series(v, dtype="int64", index=idx)
        elif t == "float64":
            s = pd.Series(np.array(v, dtype="uint64").view("float64"), index=idx)
        elif t == "bool":
            s = pd.Series(v, dtype="bool", index=idx)
        elif t == "str":
            s = pd.Series(v, dtype="str", index=idx)
        elif t == "object":
            s = pd.Series([None if x is None else (x["s"] if "s" in x else x["i"]) for x in v], dtype=object,
                          index=idx)
        else:
            raise ValueError(t)
        series.append(s)
    if not series:
        return pd.DataFrame(index=idx)
    d = pd.concat(series, axis=1)
    d.columns = list(fj["names"])
    return d


def canon_frame(df):
    import numpy as np
    cols = []
    for j in range(df.shape[1]):
        s = df.iloc[:, j]
        t = str(s.dtype)
        if t == "int64":
            v = [int(x) for x in s.to_numpy()]
        elif t == "float64":
            v = [int(x) for x in np.ascontiguousarray(s.to_numpy()).view("uint64")]
        elif t == "bool":
            v = [bool(x) for x in s.to_numpy()]
        elif t == "str":
            v = [x if isinstance(x, str) else None for x in s.to_numpy(dtype=object)]
        elif t == "object":
            v = []
            for x in s.to_numpy(dtype=object):
                if x is None or (isinstance(x, float) and x != x):
                    v.append(None)
                elif isinstance(x, str):
                    v.append({"s": x})
                elif isinstance(x, (int, np.integer)) and not isinstance(x, (bool, np.bool_)):
                    v.append({"i": int(x)})
                else:
                    v.append({"?": repr(x)})
        else:
            v = [{"?": repr(x)} for x in s]
        cols.append({"t": t, "v": v})
    return {"names": [c if isinstance(c, str) else {"?": repr(c)} for c in df.columns], "cols": cols,
            "index": [int(i) for i in df.index]}


def cell_py(t, x):
    """python value of a wire cell (for the oracles' own notion of 'differ in a value')"""
    import struct
    if t == "float64":
        return struct.unpack("<d", struct.pack("<Q", x))[0]
    if t == "object":
        return None if x is None else (x["s"] if "s" in x else x["i"])
    return x


def vals_equal(a, b):
    if a is None or (isinstance(a, float) and a != a):
        return b is None or (isinstance(b, float) and b != b)
    if b is None or (isinstance(b, float) and b != b):
        return False
    if isinstance(a, str) != isinstance(b, str):
        return False
    return a == b


def frames_differ(fa, fb):
    """do two wire frames differ in shape, a column name, a value or row order?  (dtype and index are not asked)"""
    if fa["names"] != fb["names"]:
        return "column names"
    if len(fa["index"]) != len(fb["index"]):
        return "shape"
    for ca, cb in zip(fa["cols"], fb["cols"]):
        for x, y in zip(ca["v"], cb["v"]):
            if not vals_equal(cell_py(ca["t"], x), cell_py(cb["t"], y)):
                return "a value"
    return None


def frames_equal_spec(fa, fb):
    """the oracle's reading of 'a copy equal to the stored result': labels, index, dtypes, cells by value"""
    if fa["names"] != fb["names"] or fa["index"] != fb["index"]:
        return False
    if [c["t"] for c in fa["cols"]] != [c["t"] for c in fb["cols"]]:
        return False
    return frames_differ(fa, fb) is None


def guards_ok(fa, fb):
    plain = all(not (c["t"] == "object" and any(isinstance(x, dict) and "i" in x for x in c["v"]))
                for f in (fa, fb) for c in f["cols"])
    return plain and [c["t"] for c in fa["cols"]] == [c["t"] for c in fb["cols"]]


def guard_finding(frames):
    """which known finding a set of frames falls under (None when every pair is inside both guards)"""
    for f in frames:
        for c in f["cols"]:
            if c["t"] == "object" and any(isinstance(x, dict) and "i" in x for x in c["v"]):
                return "C25-object-cells-stringified"
    for fa, fb in itertools.combinations(frames, 2):
        if fa["names"] == fb["names"] and [c["t"] for c in fa["cols"]] != [c["t"] for c in fb["cols"]]:
            return "C25-hash-ignores-dtype"
    return None


DIALECTS = ["SQLiteModel", "PostgreSQLModel", "MySQLModel", "BigQueryModel", "SparkSQLModel", "SQLiteModel_b"]
_models = {}


def db_model(name):
    if name not in _models:
        import data_algebra.BigQuery
        import data_algebra.MySQL
        import data_algebra.PostgreSQL
        import data_algebra.SparkSQL
        import data_algebra.SQLite
        base = {"SQLiteModel": data_algebra.SQLite.SQLiteModel, "PostgreSQLModel": data_algebra.PostgreSQL.PostgreSQLModel,
                "MySQLModel": data_algebra.MySQL.MySQLModel, "BigQueryModel": data_algebra.BigQuery.BigQueryModel,
                "SparkSQLModel": data_algebra.SparkSQL.SparkSQLModel}
        if name in base:
            _models[name] = base[name]()
        else:
            _models[name] = type(name, (data_algebra.SQLite.SQLiteModel,), {})()
    return _models[name]


def err_name(e):
    return type(e).__name__


def load_corpus(suite_name):
    out = []
    for p in sorted(glob.glob(os.path.join(VERIF, "corpus", "C25", "*.json"))):
        o = json.load(open(p))
        if o.get("suite") == suite_name:
            out.append(o["case"])
    return out


# ------------------------------------------------------------------------------------------------
# suite 1: the literal key text
# ------------------------------------------------------------------------------------------------

HOSTILE = ["x", "y", "a_b", "_", "__", "", "a'b", 'a"b', "a'\"b", "'", '"', "\\", "\\'", "a\\b", "\\x41", "a, 'b",
           "', '", "['a']", "]_[", "(1, 2)_", "0", "é", "日本", "a\nb", "\t", "\r", "\x7f", "\x00", "\x1f", "\xa0",
           "\x85", "\xad", "​", " ", "﻿", "\U0001F600", "\U000e0001", "ÿ", "Ā", "￿", "𐀀",
           "_0123456789abcdef0123456789abcdef0123456789abcdef0123456789abcdef"]
CHARS = list("ab_'\"\\,[] ()0\n\t\x00\x7fé\xa0\xad​\U0001F600")
SQLS = ["SELECT 1", "", "select * from \"d\"", "SELECT 'x_y' -- _", "séléct"]
TNAMES = ["d", "t", "a_b", "D", "", "d2", "é", "t_"]


def rand_name(rng):
    if rng.random() < 0.75:
        return rng.choice(HOSTILE)
    return "".join(rng.choice(CHARS) for _ in range(rng.randint(0, 5)))


def independent_digest(names, rows, vals):
    """sha256 over pandas' row hashes, computed here with pandas + hashlib only (not through /repo)"""
    import pandas as pd
    d = build_frame({"names": names, "cols": [{"t": "int64", "v": v} for v in vals], "index": list(range(rows))})
    return hashlib.sha256(pd.util.hash_pandas_object(d).values).hexdigest()


def resplit(rng, names, sep):
    """another list of the same length whose `sep`-joined text is the same (None if there is none)"""
    joined = sep.join(names)
    cuts = [i for i in range(len(joined) - len(sep) + 1) if joined.startswith(sep, i)]
    if len(cuts) < len(names) - 1 or len(names) < 2:
        return None
    for _ in range(6):
        pick = sorted(rng.sample(cuts, len(names) - 1))
        parts, prev, ok = [], 0, True
        for c in pick:
            if c < prev:
                ok = False
                break
            parts.append(joined[prev:c])
            prev = c + len(sep)
        parts.append(joined[prev:])
        if ok and parts != names:
            return parts
    return None


class KeyText(Suite):
    name = "evalcache_key"

    def __init__(self):
        self.distribution = {"tables": 0, "names": 0, "names_with_escape": 0, "nonprintable": 0, "dup_names": 0,
                             "zero_cols": 0, "alt_name_lists": 0, "alt_resplit": 0}

    def make_case(self, rng, dialect, sql, tables):
        np_set = sorted({ord(ch) for t in tables for n in t["names"] for ch in n if ord(ch) > 127 and not ch.isprintable()})
        for t in tables:
            t["digest"] = independent_digest(t["names"], t["rows"], t["vals"])
            if "alts" not in t:
                # other column-name lists for the same cells: re-splits of the joined text, and random renames
                alts = []
                for sep in ("_", ", ", "', '", "'"):
                    r = resplit(rng, t["names"], sep)
                    if r is not None and r not in alts:
                        alts.append(r)
                        self.distribution["alt_resplit"] += 1
                if t["names"]:
                    j = rng.randrange(len(t["names"]))
                    alts.append(t["names"][:j] + [rand_name(rng)] + t["names"][j + 1:])
                t["alts"] = [a for a in alts if a != t["names"]]
            self.distribution["alt_name_lists"] += len(t["alts"])
            self.distribution["tables"] += 1
            self.distribution["names"] += len(t["names"])
            self.distribution["names_with_escape"] += sum(1 for n in t["names"] if repr(n)[1:-1] != n)
            self.distribution["dup_names"] += int(len(set(t["names"])) < len(t["names"]))
            self.distribution["zero_cols"] += int(not t["names"])
        self.distribution["nonprintable"] += len(np_set)
        return {"np": np_set, "dialect": dialect, "sql": sql, "tables": tables}

    def gen(self, rng, tier):
        n = 250 if tier == "quick" else 4000
        for _ in range(n):
            tn = rng.sample(TNAMES, rng.randint(1, 3))
            tables = []
            for name in tn:
                rows = rng.choice([0, 1, 1, 2, 3, 10, 11])
                names = [rand_name(rng) for _ in range(rng.choice([0, 1, 1, 2, 2, 3, 4]))]
                if rng.random() < 0.85:
                    names = list(dict.fromkeys(names))
                tables.append({"name": name, "rows": rows, "names": names,
                               "vals": [[rng.randint(0, 2) for _ in range(rows)] for _ in names]})
            yield self.make_case(rng, rng.choice(DIALECTS), rng.choice(SQLS), tables)
        if tier == "thorough":
            for a, b in itertools.product(HOSTILE, repeat=2):
                names = [a, b] if a != b else [a]
                yield self.make_case(rng, "SQLiteModel", "q", [{"name": "d", "rows": 1, "names": names,
                                                                "vals": [[0] for _ in names]}])

    def corpus(self):
        return load_corpus(self.name)

    @staticmethod
    def frame_of(t, names=None):
        return build_frame({"names": t["names"] if names is None else names,
                            "cols": [{"t": "int64", "v": v} for v in t["vals"]], "index": list(range(t["rows"]))})

    def real(self, case):
        from data_algebra import eval_cache

        def text(d):
            try:
                return eval_cache.hash_data_frame(d)
            except Exception as e:
                return {"err": err_name(e)}

        def key(dialect, sql, frames):
            try:
                k = eval_cache.make_cache_key(db_model=db_model(dialect), sql=sql, data_map=frames)
                return [k.db_model_name, k.sql, [[a, b] for a, b in k.dat_map_list]]
            except Exception as e:
                return {"err": err_name(e)}

        frames = {t["name"]: self.frame_of(t) for t in case["tables"]}
        out = {"frames": [text(frames[t["name"]]) for t in case["tables"]],
               "key": key(case["dialect"], case["sql"], frames)}
        # property-directed extras (not sent to the model): other column-name lists over the same cells, and
        # keys with exactly one component changed
        out["alt_texts"] = [[text(self.frame_of(t, a)) for a in t["alts"]] for t in case["tables"]]
        t0 = case["tables"][0]
        other_dialect = next(d for d in DIALECTS if d != case["dialect"])
        renamed = {(t["name"] + "_") if i == 0 else t["name"]: frames[t["name"]] for i, t in enumerate(case["tables"])}
        changed = dict(frames)
        changed[t0["name"]] = build_frame({"names": t0["names"] + ["extra"],
                                           "cols": [{"t": "int64", "v": v} for v in t0["vals"]] +
                                                   [{"t": "int64", "v": [7] * t0["rows"]}],
                                           "index": list(range(t0["rows"]))})
        fewer = {t["name"]: frames[t["name"]] for t in case["tables"][1:]}
        out["variants"] = {
            "dialect": key(other_dialect, case["sql"], frames),
            "sql": key(case["dialect"], case["sql"] + " ", frames),
            "table name": key(case["dialect"], case["sql"], renamed),
            "table content": key(case["dialect"], case["sql"], changed),
            "number of tables": key(case["dialect"], case["sql"], fewer),
        }
        # data maps are dicts: the key must attach each table's content to ITS name whatever the insertion order.
        # `reinserted` = the same map built in reverse order (informative: same key expected, not demanded);
        # `swapped` = the first two tables' frames exchanged, inserted in reverse order (a different data map whenever
        # the two frames differ: must not share the key)
        rev = {t["name"]: frames[t["name"]] for t in reversed(case["tables"])}
        out["reinserted"] = key(case["dialect"], case["sql"], rev)
        if len(case["tables"]) >= 2:
            a, b = case["tables"][0]["name"], case["tables"][1]["name"]
            if out["frames"][0] != out["frames"][1]:
                for label, order in (("swapped", list(reversed(case["tables"]))), ("swapped-same-order", case["tables"])):
                    sw = {}
                    for t in order:
                        sw[t["name"]] = frames[b] if t["name"] == a else (frames[a] if t["name"] == b else frames[t["name"]])
                    out["variants"]["frames of two tables (" + label + ")"] = key(case["dialect"], case["sql"], sw)
                out["variants"]["frames of two tables (original reinserted vs swapped)"] = None
                swk = out["variants"]["frames of two tables (swapped-same-order)"]
                if not isinstance(swk, dict) and not isinstance(out["reinserted"], dict) and swk == out["reinserted"]:
                    out["variants"]["frames of two tables (original reinserted vs swapped)"] = out["key"]
                else:
                    del out["variants"]["frames of two tables (original reinserted vs swapped)"]
        return out

    def real_canon(self, out, case=None):
        if "harness_exc" in out:
            return out
        return {"frames": out["frames"], "key": out["key"]}

    def oracle(self, case, real_out):
        if "harness_exc" in real_out:
            return "harness: " + real_out["harness_exc"]
        for t, ks, alts in zip(case["tables"], real_out["frames"], real_out["alt_texts"]):
            texts = [(t["names"], ks)] + list(zip(t["alts"], alts))
            for nm, tx in texts:
                if isinstance(tx, dict):
                    return f"raises: hash_data_frame raised {tx['err']} on a frame with columns {nm!r}"
            for (n1, t1), (n2, t2) in itertools.combinations(texts, 2):
                if n1 != n2 and t1 == t2:
                    return f"collision: frames with column names {n1!r} and {n2!r} (same cells) share the key text {t1!r}"
        k = real_out["key"]
        if isinstance(k, dict):
            return f"raises: make_cache_key raised {k['err']} on well-typed arguments"
        for what, kv in real_out["variants"].items():
            if isinstance(kv, dict):
                return f"raises: make_cache_key raised {kv['err']} on well-typed arguments"
            if kv == k:
                return f"collision: two calls that differ in the {what} build the same key"
        return None

    def nontrivial(self, case, real_out):
        return len(case["tables"]) >= 2 or any(repr(n)[1:-1] != n for t in case["tables"] for n in t["names"])

    def shrink(self, case):
        import random
        rng = random.Random(0)
        ts = case["tables"]

        def strip(t):
            return {k: v for k, v in t.items() if k not in ("digest",)}
        for i in range(len(ts)):
            if len(ts) > 1:
                yield self.make_case(rng, case["dialect"], case["sql"], [strip(t) for t in ts[:i] + ts[i + 1:]])
            for j in range(len(ts[i]["alts"])):
                t2 = dict(strip(ts[i]), alts=ts[i]["alts"][:j] + ts[i]["alts"][j + 1:])
                yield self.make_case(rng, case["dialect"], case["sql"], [strip(t) for t in ts[:i]] + [t2] + [strip(t) for t in ts[i + 1:]])


# ------------------------------------------------------------------------------------------------
# random frames
# ------------------------------------------------------------------------------------------------

F_ZERO, F_NZERO, F_ONE, F_HALF, F_NAN, F_TINY = 0, 1 << 63, 0x3FF0000000000000, 0x3FE0000000000000, 0x7FF8000000000000, 1
INT_POOL = [0, 1, 2, -1, 3, 10]
FLT_POOL = [F_ZERO, F_NZERO, F_ONE, F_HALF, F_NAN, 0x4000000000000000, 0xBFF0000000000000]
STR_POOL = ["a", "b", "", "1", "-1", "nan", "None", "é", "a_b", None, None]
OBJ_POOL = [None, {"s": "a"}, {"s": "1"}, {"s": "-1"}, {"s": ""}, {"s": "None"}]
OBJ_POOL_INT = OBJ_POOL + [{"i": 1}, {"i": -1}, {"i": 0}]
COLN = ["x", "y", "a_b", "z", "k'"]


def rand_col(rng, rows, t=None, obj_ints=False):
    t = t or rng.choice(["int64", "int64", "float64", "bool", "str", "str", "object"])
    pool = {"int64": INT_POOL, "float64": FLT_POOL, "bool": [True, False], "str": STR_POOL,
            "object": OBJ_POOL_INT if obj_ints else OBJ_POOL}[t]
    return {"t": t, "v": [rng.choice(pool) for _ in range(rows)]}


def rand_frame(rng, obj_ints=False, max_rows=3):
    rows = rng.choice([0, 1, 2, 2, 3][:max_rows + 2])
    nc = rng.choice([0, 1, 1, 2, 2, 3])
    names = rng.sample(COLN, nc)
    idx = list(range(rows)) if rng.random() < 0.85 else sorted(rng.sample(range(-2, 8), rows))
    return {"names": names, "cols": [rand_col(rng, rows, obj_ints=obj_ints) for _ in names], "index": idx}


def other_value(rng, t, x, obj_ints=False):
    pool = {"int64": INT_POOL, "float64": FLT_POOL, "bool": [True, False], "str": STR_POOL,
            "object": OBJ_POOL_INT if obj_ints else OBJ_POOL}[t]
    c = [y for y in pool if y != x]
    return rng.choice(c)


def variant(rng, f):
    """one-step variant of a frame; returns (kind, frame)"""
    g = json.loads(json.dumps(f))
    rows, nc = len(f["index"]), len(f["names"])
    kinds = ["same", "reindex", "addrow", "addcol"]
    if rows and nc:
        kinds += ["value", "value", "value", "dtype", "dtype", "signzero", "objtext"]
    if nc:
        kinds += ["colname", "dropcol"]
    if nc >= 2:
        kinds += ["colorder"]
    if rows >= 2:
        kinds += ["roworder", "roworder", "droprow"]
    k = rng.choice(kinds)
    if k == "value":
        j, i = rng.randrange(nc), rng.randrange(rows)
        g["cols"][j]["v"][i] = other_value(rng, g["cols"][j]["t"], g["cols"][j]["v"][i], obj_ints=True)
    elif k == "colname":
        j = rng.randrange(nc)
        g["names"][j] = rng.choice([n for n in COLN + ["x_", "X"] if n not in g["names"]])
    elif k == "dropcol":
        j = rng.randrange(nc)
        del g["names"][j]
        del g["cols"][j]
    elif k == "addcol":
        g["names"].append(rng.choice([n for n in COLN + ["w"] if n not in g["names"]]))
        g["cols"].append(rand_col(rng, rows))
    elif k == "addrow":
        for c in g["cols"]:
            c["v"].append(rand_col(rng, 1, c["t"])["v"][0])
        g["index"].append(max(g["index"] + [-1]) + 1)
    elif k == "droprow":
        i = rng.randrange(rows)
        for c in g["cols"]:
            del c["v"][i]
        del g["index"][i]
    elif k == "roworder":
        i, i2 = rng.sample(range(rows), 2)
        for c in g["cols"]:
            c["v"][i], c["v"][i2] = c["v"][i2], c["v"][i]
        if rng.random() < 0.3:  # the index labels travel with the rows
            g["index"][i], g["index"][i2] = g["index"][i2], g["index"][i]
    elif k == "colorder":
        j, j2 = rng.sample(range(nc), 2)
        g["names"][j], g["names"][j2] = g["names"][j2], g["names"][j]
        g["cols"][j], g["cols"][j2] = g["cols"][j2], g["cols"][j]
    elif k == "reindex":
        g["index"] = [x + 1 for x in g["index"]] if rows else g["index"]
    elif k == "dtype":
        j = rng.randrange(nc)
        c = g["cols"][j]
        if c["t"] == "int64":
            how = rng.choice(["bits", "value", "bool", "obj"])
            if how == "bits":      # same 8-byte patterns, read as floats
                g["cols"][j] = {"t": "float64", "v": [x % (1 << 64) for x in c["v"]]}
            elif how == "value":   # same numbers as floats
                import struct
                g["cols"][j] = {"t": "float64", "v": [struct.unpack("<Q", struct.pack("<d", float(x)))[0] for x in c["v"]]}
            elif how == "bool":
                g["cols"][j] = {"t": "bool", "v": [x != 0 for x in c["v"]]}
            else:
                g["cols"][j] = {"t": "object", "v": [{"i": x} for x in c["v"]]}
        elif c["t"] == "float64":
            g["cols"][j] = {"t": "int64", "v": [x - (1 << 64) if x >= (1 << 63) else x for x in c["v"]]}
        elif c["t"] == "bool":
            g["cols"][j] = {"t": "int64", "v": [int(x) for x in c["v"]]}
        elif c["t"] == "str":
            g["cols"][j] = {"t": "object", "v": [None if x is None else {"s": x} for x in c["v"]]}
        else:
            if all(x is None or "s" in x for x in c["v"]):
                g["cols"][j] = {"t": "str", "v": [None if x is None else x["s"] for x in c["v"]]}
            else:
                g["cols"][j] = {"t": "object", "v": [None if x is None else {"s": str(x.get("i", x.get("s")))} for x in c["v"]]}
    elif k == "signzero":
        j = rng.randrange(nc)
        g["cols"][j] = {"t": "float64", "v": [F_ZERO] * rows}
        f = json.loads(json.dumps(g))
        g["cols"][j]["v"][rng.randrange(rows)] = F_NZERO
        return k, f, g
    elif k == "objtext":
        j = rng.randrange(nc)
        vals = [rng.choice([1, -1, 0, 12]) for _ in range(rows)]
        g["cols"][j] = {"t": "object", "v": [{"i": x} for x in vals]}
        f = json.loads(json.dumps(g))
        i = rng.randrange(rows)
        g["cols"][j]["v"][i] = {"s": str(vals[i])}
        return k, f, g
    return k, f, g


class Pairs(Suite):
    name = "evalcache_pair"

    def __init__(self):
        self.distribution = {}

    def gen(self, rng, tier):
        n = 500 if tier == "quick" else 8000
        for _ in range(n):
            f = rand_frame(rng, obj_ints=rng.random() < 0.15)
            if rng.random() < 0.85:
                k, a, b = variant(rng, f)
            else:
                k, a, b = "unrelated", f, rand_frame(rng)
            self.distribution[k] = self.distribution.get(k, 0) + 1
            yield {"kind": k, "a": a, "b": b}

    def corpus(self):
        return load_corpus(self.name)

    def real(self, case):
        from data_algebra import eval_cache
        a, b = build_frame(case["a"]), build_frame(case["b"])
        try:
            ka, kb = eval_cache.hash_data_frame(a), eval_cache.hash_data_frame(b)
        except Exception as e:
            return {"err": err_name(e)}
        return {"same_key": ka == kb, "equals": bool(a.equals(b)), "guards_ok": guards_ok(case["a"], case["b"])}

    def oracle(self, case, real_out):
        if "harness_exc" in real_out:
            return "harness: " + real_out["harness_exc"]
        if "err" in real_out:
            return None   # hashing a valid frame raised: not a statement of the property; the correspondence reports it
        d = frames_differ(case["a"], case["b"])
        if d and real_out["same_key"]:
            return f"collision: frames that differ in {d} share a key"
        return None

    def finding(self, case, real_out, why):
        if why.startswith("collision") and not guards_ok(case["a"], case["b"]):
            return guard_finding([case["a"], case["b"]])
        return None

    def nontrivial(self, case, real_out):
        return case["a"] != case["b"]

    def shrink(self, case):
        a, b = case["a"], case["b"]
        if a["names"] == b["names"]:
            for j in range(len(a["names"])):
                yield {"kind": case.get("kind"), "a": _dropcol(a, j), "b": _dropcol(b, j)}
        if len(a["index"]) == len(b["index"]):
            for i in range(len(a["index"])):
                yield {"kind": case.get("kind"), "a": _droprow(a, i), "b": _droprow(b, i)}


def _dropcol(f, j):
    return {"names": f["names"][:j] + f["names"][j + 1:], "cols": f["cols"][:j] + f["cols"][j + 1:], "index": f["index"]}


def _droprow(f, i):
    return {"names": f["names"], "cols": [{"t": c["t"], "v": c["v"][:i] + c["v"][i + 1:]} for c in f["cols"]],
            "index": f["index"][:i] + f["index"][i + 1:]}


# ------------------------------------------------------------------------------------------------
# suite 3: store/get histories
# ------------------------------------------------------------------------------------------------

H_DIALECTS = ["SQLiteModel", "PostgreSQLModel"]
H_SQLS = ["SELECT 1", "SELECT 2", ""]
H_TNAMES = ["d", "t", "a_b"]


class Histories(Suite):
    name = "evalcache"

    def __init__(self):
        self.distribution = {}

    def count(self, k):
        self.distribution[k] = self.distribution.get(k, 0) + 1

    def rand_args(self, rng, nrefs, frames_of_ref):
        names = rng.sample(H_TNAMES, rng.choice([1, 1, 1, 2]))
        data = [[n, rng.randrange(nrefs)] for n in names]
        a = {"valid": True, "dialect": rng.choice(H_DIALECTS), "sql": rng.choice(H_SQLS), "data": data}
        if rng.random() < 0.04:
            bad = rng.choice(["db_model", "sql", "key", "value"])
            self.count("malformed_" + bad)
            if bad == "value":
                a["data"][0][1] = None
            else:
                a["valid"] = False
                a["bad"] = bad
        return a

    def gen_one(self, rng, length):
        pool = [rand_frame(rng, max_rows=2) for _ in range(rng.randint(2, 4))]
        pool = [p for p in pool if p["names"] and p["index"]] or [
            {"names": ["x"], "cols": [{"t": "int64", "v": [1]}], "index": [0]}]
        if rng.random() < 0.3:   # a pair that is .equals but not identical
            pool.append({"names": ["x"], "cols": [{"t": "float64", "v": [F_ZERO]}], "index": [0]})
            pool.append({"names": ["x"], "cols": [{"t": "float64", "v": [F_NZERO]}], "index": [0]})
        ops = []
        shapes = []   # per reference: (names, dtypes, rows) as far as the generator can track them
        def new(f):
            ops.append({"op": "new", "frame": f})
            shapes.append(json.loads(json.dumps(f)))
        for _ in range(rng.randint(2, 4)):
            new(rng.choice(pool))
        n_get_refs = 0
        while len(ops) < length:
            r = rng.random()
            nrefs = len(shapes)
            if r < 0.30:
                stores = [o for o in ops if o["op"] == "store" and o.get("valid")]
                if stores and rng.random() < 0.45:   # store again under an earlier key (overwrite / equals-skip)
                    s = rng.choice(stores)
                    a = {"valid": True, "dialect": s["dialect"], "sql": s["sql"], "data": [list(p) for p in s["data"]]}
                    self.count("store_again")
                else:
                    a = self.rand_args(rng, nrefs, shapes)
                res = rng.randrange(nrefs) if rng.random() > 0.02 else None
                ops.append(dict(a, op="store", res=res))
                self.count("store")
            elif r < 0.62:
                # mostly re-use the arguments of an earlier store so that hits are frequent
                stores = [o for o in ops if o["op"] == "store" and o.get("valid")]
                if stores and rng.random() < 0.8:
                    s = rng.choice(stores)
                    a = {"valid": True, "dialect": s["dialect"], "sql": s["sql"], "data": [list(p) for p in s["data"]]}
                    if rng.random() < 0.3:   # same content through a different object
                        for p in a["data"]:
                            if p[1] is not None:
                                cands = [i for i, sh in enumerate(shapes) if sh is not None and sh == shapes[p[1]]]
                                p[1] = rng.choice(cands) if cands else p[1]
                else:
                    a = self.rand_args(rng, nrefs, shapes)
                ops.append(dict(a, op="get"))
                # a get may or may not return an object: the generator cannot know, so it never references
                # get results by number; instead `mut_last_get` below addresses "the object the last get returned"
                self.count("get")
            elif r < 0.80:
                i = rng.randrange(nrefs)
                sh = shapes[i]
                if sh is None or not sh["names"] or not sh["index"]:
                    continue
                j, row = rng.randrange(len(sh["names"])), rng.randrange(len(sh["index"]))
                v = other_value(rng, sh["cols"][j]["t"], sh["cols"][j]["v"][row])
                sh["cols"][j]["v"][row] = v
                ops.append({"op": "setcell", "obj": i, "col": j, "row": row, "val": v})
                self.count("setcell")
            elif r < 0.86:
                i = rng.randrange(nrefs)
                sh = shapes[i]
                name = rng.choice(["w", "w2", "_"])
                if sh is None or name in sh["names"]:
                    continue
                vals = [rng.choice(INT_POOL) for _ in sh["index"]]
                sh["names"].append(name)
                sh["cols"].append({"t": "int64", "v": vals})
                ops.append({"op": "addcol", "obj": i, "name": name, "vals": vals})
                self.count("addcol")
            elif r < 0.93:
                ops.append({"op": "mut_last_get", "val": rng.choice(INT_POOL), "how": rng.choice(["cell", "col"])})
                self.count("mut_last_get")
            elif r < 0.985:
                new(rng.choice(pool))
                self.count("new")
            else:
                ops.append({"op": "data_off"})
                self.count("data_off")
        return {"ops": ops}

    def gen(self, rng, tier):
        n = 250 if tier == "quick" else 3000
        for _ in range(n):
            yield self.gen_one(rng, rng.choice([3, 6, 10, 10, 16, 30]))
        if tier == "thorough":
            fa = {"names": ["x"], "cols": [{"t": "int64", "v": [1]}], "index": [0]}
            fb = {"names": ["x"], "cols": [{"t": "int64", "v": [2]}], "index": [0]}
            k1 = {"valid": True, "dialect": "SQLiteModel", "sql": "q", "data": [["d", 0]]}
            k2 = {"valid": True, "dialect": "SQLiteModel", "sql": "q", "data": [["d", 1]]}
            alphabet = [dict(k1, op="store", res=0), dict(k1, op="store", res=1), dict(k2, op="store", res=0),
                        dict(k1, op="get"), dict(k2, op="get"),
                        {"op": "setcell", "obj": 0, "col": 0, "row": 0, "val": 2},
                        {"op": "mut_last_get", "val": 3, "how": "cell"}]
            for ln in range(0, 5):
                for h in itertools.product(alphabet, repeat=ln):
                    yield {"ops": [{"op": "new", "frame": fa}, {"op": "new", "frame": fb}] + [dict(o) for o in h]}

    def corpus(self):
        return load_corpus(self.name)

    # `mut_last_get` is harness-level sugar: "change the object the most recent successful get returned" (set
    # cell (0,0) if the first column is a non-empty int64 column, else add an int64 column `_m`; nothing if no get
    # succeeded yet).  Real side and driver resolve it the same way, each against its own run.
    def real(self, case):
        import data_algebra.eval_cache as ec
        cache = ec.ResultCache()
        objs = []        # reference number n = the n-th object made by `new`
        gots = []        # objects returned by get
        steps = []
        resolved = []
        last_get = None

        def args(o):
            dm = {}
            for i, (n, r) in enumerate(o["data"]):
                key = i if o.get("bad") == "key" else n
                dm[key] = [1, 2] if r is None else objs[r]
            return dict(db_model="sqlite" if o.get("bad") == "db_model" else db_model(o["dialect"]),
                        sql=5 if o.get("bad") == "sql" else o["sql"], data_map=dm)

        for o in case["ops"]:
            op = o["op"]
            if op == "mut_last_get":
                if last_get is None:
                    continue
                d = gots[last_get]
                if o["how"] == "cell" and d.shape[0] and d.shape[1] and str(d.dtypes.iloc[0]) == "int64":
                    o = {"op": "setcell", "got": last_get, "col": 0, "row": 0, "val": o["val"]}
                elif "_m" not in d.columns:
                    o = {"op": "addcol", "got": last_get, "name": "_m", "vals": [o["val"]] * d.shape[0]}
                else:
                    continue
                op = o["op"]
            resolved.append(o)
            target = gots[o["got"]] if "got" in o else (objs[o["obj"]] if "obj" in o else None)
            if op == "new":
                objs.append(build_frame(o["frame"]))
                steps.append({"r": "ok"})
            elif op == "setcell":
                t = str(target.dtypes.iloc[o["col"]])
                target.iloc[o["row"], o["col"]] = cell_py(t, o["val"])
                steps.append({"r": "ok"})
            elif op == "addcol":
                target[o["name"]] = o["vals"]
                steps.append({"r": "ok"})
            elif op == "data_off":
                cache.data_cache = None
                steps.append({"r": "ok"})
            elif op == "store":
                try:
                    cache.store(res=None if o["res"] is None else objs[o["res"]], **args(o))
                    r = "ok"
                except Exception as e:
                    r = err_name(e)
                steps.append({"r": r, "dirty": bool(cache.dirty), "n_result": len(cache.result_cache),
                              "n_data": None if cache.data_cache is None else len(cache.data_cache)})
            elif op == "get":
                try:
                    got = cache.get(**args(o))
                    fresh = (all(got is not x for x in objs + gots)
                             and all(got is not x for x in cache.result_cache.values()))
                    gots.append(got)
                    last_get = len(gots) - 1
                    steps.append({"r": "ok", "frame": canon_frame(got), "fresh": fresh})
                except Exception as e:
                    steps.append({"r": err_name(e)})
            else:
                raise ValueError(op)
        final = {"result": [canon_frame(v) for v in cache.result_cache.values()],
                 "data": None if cache.data_cache is None else [canon_frame(v) for v in cache.data_cache.values()]}
        return {"steps": steps, "final": final, "resolved": resolved}

    def real_canon(self, out, case=None):
        if "harness_exc" in out:
            return out
        return {"steps": [{k: v for k, v in s.items() if k != "fresh"} for s in out["steps"]], "final": out["final"]}

    # ---- independent oracle: a plain dict keyed by a canonical deep serialisation -------------------
    def oracle(self, case, real_out):
        if "harness_exc" in real_out:
            return "harness: " + real_out["harness_exc"]
        objs = []      # wire frames: the oracle's own copy of what every caller-held object contains
        gots = []
        store = {}     # canonical key text -> wire frame stored
        for n, (o, got) in enumerate(zip(real_out["resolved"], real_out["steps"])):
            op = o["op"]
            if op == "new":
                objs.append(json.loads(json.dumps(o["frame"])))
            elif op == "setcell":
                tgt = gots[o["got"]] if "got" in o else objs[o["obj"]]
                tgt["cols"][o["col"]]["v"][o["row"]] = o["val"]
            elif op == "addcol":
                tgt = gots[o["got"]] if "got" in o else objs[o["obj"]]
                tgt["names"].append(o["name"])
                tgt["cols"].append({"t": "int64", "v": list(o["vals"])})
            elif op in ("store", "get"):
                malformed = (not o["valid"]) or any(r is None for _, r in o["data"]) or (op == "store" and o["res"] is None)
                if malformed:
                    continue    # ill-typed calls are outside the property (the correspondence still compares them)
                key = json.dumps([o["dialect"], o["sql"], sorted((nm, json.dumps(objs[r], sort_keys=True)) for nm, r in o["data"])])
                if op == "store":
                    if got["r"] != "ok":
                        continue
                    new = json.loads(json.dumps(objs[o["res"]]))
                    if not (key in store and frames_equal_spec(store[key], new)):
                        store[key] = new
                elif got["r"] == "ok":
                    # the property: a lookup succeeds ONLY for a stored key, and then returns an equal, fresh copy
                    if key not in store:
                        return (f"false-hit: step {n} get succeeded although no store used the same dialect, SQL "
                                f"and equal data tables")
                    if not frames_equal_spec(got["frame"], store[key]):
                        return (f"wrong-value: step {n} get returned {json.dumps(got['frame'])[:150]}, stored was "
                                f"{json.dumps(store[key])[:150]}")
                    if not got.get("fresh", True):
                        return f"alias: step {n} get returned an object the caller or the cache already holds"
                    gots.append(json.loads(json.dumps(got["frame"])))
        return None

    def finding(self, case, real_out, why):
        if why.startswith("false-hit"):
            return guard_finding([o["frame"] for o in case["ops"] if o["op"] == "new"])
        return None

    def nontrivial(self, case, real_out):
        if "harness_exc" in real_out:
            return False
        hits = sum(1 for s in real_out["steps"] if s.get("r") == "ok" and "frame" in s)
        misses = sum(1 for s in real_out["steps"] if s.get("r") == "KeyError")
        muts = sum(1 for o in real_out["resolved"] if o["op"] in ("setcell", "addcol"))
        return hits >= 1 and (muts >= 1 or misses >= 1)

    def shrink(self, case):
        ops = case["ops"]
        for n in range(len(ops) - 1, 0, -1):
            if ops[n]["op"] != "new" or n == len(ops) - 1:
                if n < len(ops):
                    yield {"ops": ops[:n]}
                break
        for i, o in enumerate(ops):
            if o["op"] in ("store", "setcell", "addcol", "data_off", "mut_last_get"):
                yield {"ops": ops[:i] + ops[i + 1:]}
        for i, o in enumerate(ops):
            if o["op"] in ("store", "get") and len(o["data"]) > 1:
                yield {"ops": ops[:i] + [dict(o, data=o["data"][:1])] + ops[i + 1:]}


SUITES = [KeyText(), Pairs(), Histories()]
