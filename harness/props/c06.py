"""C06 — Builder simplifications never change what a pipeline means."""
import json
import os
import random

from .. import oracles
from .. import pipes
from ..propkit import with_oracle
from ..suites_ops import K2Build, K4Sem

PROPERTY = "C06"
LEAN_MODULES = ["DAVerif.Props.C06"]
THEOREMS = ["DAVerif." + t for t in (
    "C06_chain_eq_sequential", "C06_chain_eq_sequential_cols", "C06_chain_eq_sequential_eq", "C06_chain", "C06_accepts_iff", "C06_same_error",
    "C06_merge_ops_sound", "merge_ops_sound", "merge_ops_sound_window", "trivial_order_elim_sound",
    "select_collapse_sound", "C06_select_collapse_sound", "tryMergeOps_spec", "extendChk_merge", "Reachable.valid",
    "Reachable.buildChain", "build_sem", "build_errOf", "buildChain_sem", "semStep_congrC", "applyNode_congrC",
    "C06_column_order_not_preserved", "C06_accepts_tables_necessary")]
ASSUMPTIONS = [
    "the builder model `build` (lean/DAVerif/Ops/Builder.lean, /repo after fixes D3 D4 D5 e8da488) is the library's builders: "
    "tied by suite k2_build (every builder call of every generated chain on code and model) on every run",
    "the relational model `sem` is the Pandas executor: tied by suite k4_sem on every run",
    "record transforms (convert_records) return their declared, pairwise different columns and respect row / column order "
    "(hypotheses ConvertOK, ConvertInvariant of the theorems; C17 owns the transform)",
    "'same result' is the framework's comparison rule: same error, or same columns as a set and same multiset of rows "
    "(`≈ᶜ`); where the declared column order also agrees the theorems give it (C06_chain_eq_sequential_cols)",
    "the new step is in C18's scope on the materialised prefix result (total window order or order free window "
    "functions, order free aggregates, a limit that does not cut a tie): hypothesis StepScope / ChainScope",
]
NOT_PROVEN = [
    "SQL backends: the theorems are about the executor model; chained-vs-stepwise on SQLite is not part of this check",
    "expression parsing (text -> term) is the library's own parser on both sides (C13)",
]
LEVEL_TEXT = ("Kernel-checked for every pipeline a user can write (Reachable), every builder call with arbitrary arguments, "
              "every interpretation of the function symbols and both executor configurations: an accepted call returns a "
              "pipeline that evaluates to the same error, or the same table up to row and column order, as the raw "
              "unsimplified step applied to the materialised result of the receiver (one step and n-step chains); the "
              "extend merge (try_to_merge_ops, plain and windowed), the elimination of order_rows without limit and the "
              "select_columns collapse are proven sound as separate lemmas; a call is accepted, and fails with the same "
              "error class, exactly when the raw call on a table description with the same columns is (tables of join "
              "arguments being consistent). Counterexample theorems show that column ORDER is not preserved by a "
              "common-target merge and that table consistency is needed for acceptance parity.")
LEVEL_NOTE = ("Trusted: Lean kernel; axioms propext/Classical.choice/Quot.sound; the shared hand-written models "
              "Ops/Builder.lean and Sem/Eval.lean (tied to view_representations.py / pandas_base.py by the k2_build and "
              "k4_sem correspondence on every run); harness/extract_tables.py for the function-name classes. The proofs "
              "are about /repo after fixes D3, D4, D5 and e8da488.")
RULE = ("pipes.gen_case chains (extend_after_extend 0.6, overwrite 0.45, interior_order 0.3, select_after_drop 0.4) "
        "+ corpus witnesses of D3 D4 D5; k2_build: every builder call on code and model; k4_sem: evaluation on random "
        "tables on Pandas and model; oracle_C06 on every case: chained vs raw-step-on-materialised-prefix at every "
        "step, and accept/reject parity with error class; non-trivial = expressible for the model / evaluates to >= 1 row")

_HERE = os.path.dirname(os.path.dirname(os.path.dirname(os.path.abspath(__file__))))
_CORPUS = os.path.join(_HERE, "corpus", "C06")

_BIAS = dict(extend_after_extend=0.6, overwrite=0.45, interior_order=0.3, select_after_drop=0.4)


def _ival(i):
    return {"i": i}


def _table(cols, rows):
    return {"cols": cols, "kinds": ["int"] * len(cols), "rows": [[_ival(v) for v in r] for r in rows]}


def _witnesses():
    """hand-written chains of the shapes the three simplifications act on (incl. the witnesses of D3, D4, D5)"""
    d = _table(["g", "x", "y"], [[1, 1, 10], [1, 2, 20], [2, 3, 30], [2, 4, 40]])
    r = _table(["g", "x", "z"], [[1, 1, 5], [2, 3, 6]])
    # the two orders (x, y) and (y, x) disagree inside each partition; no ties under either
    w = _table(["g", "x", "y", "v"], [[1, 1, 3, 10], [1, 2, 2, 20], [1, 3, 1, 30], [2, 1, 2, 40], [2, 2, 1, 50]])

    def case(steps, tables=None, name=None):
        return {"tables": tables or {"d": d}, "pipe": {"table": "d", "steps": steps}, "_always": True, "_name": name}

    ext = lambda ops, **kw: dict({"call": "extend", "ops": [[k, v] for k, v in ops]}, **kw)
    out = [
        # D5: both steps assign `a`, the second reads `y` which the first replaced
        case([ext([("a", "x + 1"), ("y", "y + 1")]), ext([("a", "x"), ("c", "y * 2")])], name="d5_merge_common_target"),
        # common-target merge that IS sound (column order differs from the stepwise one)
        case([ext([("a", "x + 1"), ("b", "2")]), ext([("a", "3"), ("c", "g")])], name="merge_common_target_ok"),
        # merge without common targets, second reads nothing the first produces
        case([ext([("a", "x + 1")]), ext([("b", "y + 1")])], name="merge_disjoint"),
        # no merge: second reads the product of the first
        case([ext([("a", "x + 1")]), ext([("b", "a + 1")])], name="no_merge_reads_product"),
        # order_rows elimination before every kind of successor
        case([{"call": "order_rows", "cols": ["x"], "reverse": [], "limit": None}, ext([("a", "x + 1")])],
             name="order_then_extend"),
        case([{"call": "order_rows", "cols": ["x"], "reverse": [], "limit": None},
              {"call": "select_rows", "expr": "x > 1"}], name="order_then_select_rows"),
        case([{"call": "order_rows", "cols": ["x"], "reverse": [], "limit": None},
              {"call": "order_rows", "cols": ["y"], "reverse": ["y"], "limit": 2}], name="order_then_order_limit"),
        # D4: select_columns after select_columns / drop_columns of a column that is gone
        case([{"call": "select_columns", "cols": ["g", "x"]}, {"call": "select_columns", "cols": ["y"]}],
             name="d4_select_after_select_gone"),
        case([{"call": "drop_columns", "cols": ["y"]}, {"call": "select_columns", "cols": ["y"]}],
             name="d4_select_after_drop_gone"),
        case([{"call": "select_columns", "cols": ["g", "x", "y"]}, {"call": "select_columns", "cols": ["x", "g"]},
              {"call": "select_columns", "cols": ["g"]}], name="select_collapse_chain"),
        # D3: natural_join after an eliminated order_rows keeps the requested key check
        case([{"call": "order_rows", "cols": ["g"], "reverse": [], "limit": None},
              {"call": "natural_join", "b": {"table": "r"}, "on": ["g"], "jointype": "inner", "check": True}],
             tables={"d": d, "r": r}, name="d3_join_check_after_order"),
        # windowed merge (same partition, no order)
        case([ext([("s", "x.sum()")], partition_by=["g"]), ext([("m", "y.max()")], partition_by=["g"])],
             name="merge_windowed"),
        case([ext([("a", "x + 1")]), ext([("n", "_size()")], partition_by=1)], name="e8da488_partition_one"),
        # consecutive ordered windows: merged only when partition, order LIST and reverse list are the same
        case([ext([("r1", "_row_number()")], partition_by=["g"], order_by=["x", "y"]),
              ext([("r2", "_row_number()")], partition_by=["g"], order_by=["y", "x"])],
             tables={"d": w}, name="window_order_permuted_no_merge"),
        case([ext([("c1", "v.cumsum()")], partition_by=["g"], order_by=["x", "y"], reverse=["y"]),
              ext([("c2", "v.cumsum()")], partition_by=["g"], order_by=["x", "y"], reverse=["x"])],
             tables={"d": w}, name="window_reverse_differs_no_merge"),
        case([ext([("c1", "v.cumsum()")], partition_by=["g"], order_by=["x", "y"]),
              ext([("c2", "v.cummax()")], partition_by=["g"], order_by=["x", "y"])],
             tables={"d": w}, name="window_same_order_merge"),
        case([ext([("c1", "v.cumsum()")], partition_by=["g", "x"], order_by=["y"]),
              ext([("c2", "v.cumsum()")], partition_by=["x", "g"], order_by=["y"])],
             tables={"d": w}, name="window_partition_permuted"),
        case([{"call": "order_rows", "cols": ["x"], "reverse": [], "limit": 0}, ext([("a", "x + 1")])],
             name="order_limit_zero_then_extend"),
        # an eliminated order_rows in front of every binary / labelled step: all arguments of the step survive
        case([{"call": "order_rows", "cols": ["x"], "reverse": [], "limit": None},
              {"call": "concat_rows", "b": {"table": "d", "steps": []}, "id_column": "src", "a_name": "left", "b_name": "right"}],
             name="order_then_concat_labels"),
        case([{"call": "order_rows", "cols": ["x"], "reverse": [], "limit": None},
              {"call": "natural_join", "b": {"table": "r"}, "on": [["x", "z"]], "jointype": "left", "check": False}],
             tables={"d": d, "r": r}, name="order_then_join_diff_keys"),
        # a select naming a column the step below removed
        case([{"call": "drop_columns", "cols": ["y"]}, {"call": "select_columns", "cols": ["g", "y"]}], name="select_dropped_column"),
    ]
    return out


def _corpus_files():
    out = []
    if os.path.isdir(_CORPUS):
        for f in sorted(os.listdir(_CORPUS)):
            if f.endswith(".json"):
                try:
                    j = json.load(open(os.path.join(_CORPUS, f)))
                    c = j.get("case", j)
                    c["_always"] = True
                    out.append(c)
                except Exception:
                    pass
    return out


def _strip(c):
    return {k: v for k, v in c.items() if not k.startswith("_")}


def _safe_gen_case(rng, tier, opts):
    """pipes.gen_case, skipping the rare seeds on which the shared generator itself raises (never a verdict)"""
    for _ in range(5):
        try:
            return pipes.gen_case(random.Random(rng.getrandbits(64)), tier, **opts)
        except Exception:
            continue
    return None


class _K2(K2Build):
    gen_opts = dict(K2Build.gen_opts, fault_rate=0.3, **_BIAS)
    n_quick, n_thorough = 170, 2000

    def gen(self, rng, tier):
        n = self.n_quick if tier == "quick" else self.n_thorough
        for _ in range(n):
            case = _safe_gen_case(rng, tier, self.opts)
            if case is None:
                continue
            for c in case["meta"].get("calls", []):
                self.distribution[c] = self.distribution.get(c, 0) + 1
            yield {"tables": {k: {"cols": v["cols"], "kinds": v["kinds"], "rows": []} for k, v in case["tables"].items()},
                   "pipe": case["pipe"], "meta": {"fault": case["meta"].get("fault")}}

    def corpus(self):
        out = []
        for c in _witnesses() + _corpus_files():
            cc = dict(c)
            cc["tables"] = {k: {"cols": v["cols"], "kinds": v["kinds"], "rows": []} for k, v in c["tables"].items()}
            cc.setdefault("meta", {"fault": None})
            out.append(cc)
        return out


class _K4(K4Sem):
    # small tables also in the thorough tier: the property is about pipeline structure, and the model's `sem` (lists,
    # quadratic windows) is slow on the row counts that chains of cross joins reach
    gen_opts = dict(K4Sem.gen_opts, max_rows=8, max_depth=11, empty_tables=0.0, **_BIAS)
    n_quick, n_thorough = 120, 900

    def gen(self, rng, tier):
        n = self.n_quick if tier == "quick" else self.n_thorough
        for _ in range(n):
            case = _safe_gen_case(rng, tier, self.opts)
            if case is None:
                continue
            if any(len(t["rows"]) == 0 for t in case["tables"].values()):
                # empty input frames: pandas' dtype inference on empty / all-null columns diverges from the dtype-free
                # model (a k4_sem matter, exercised by the suites of C18 / C09); not part of this property
                self.distribution["skipped:empty-input"] = self.distribution.get("skipped:empty-input", 0) + 1
                continue
            for c in case["meta"].get("calls", []):
                self.distribution[c] = self.distribution.get(c, 0) + 1
            yield {"tables": case["tables"], "pipe": case["pipe"]}

    def corpus(self):
        return [dict(c) for c in _witnesses() + _corpus_files()]

    def agree(self, real_c, model_c):
        if super().agree(real_c, model_c):
            return True
        # pandas corner outside these properties: a null of an all-null (object / float) column that went through
        # string concatenation is rendered as the string 'nan' (e.g. max() over an empty intermediate result, then
        # %+%); the dtype-free model keeps it null.  Counted, not compared.
        try:
            rc = json.loads(json.dumps(real_c))
            if isinstance(rc, dict) and "ok" in rc:
                changed = False
                for r in rc["ok"]["rows"]:
                    for i, v in enumerate(r):
                        if isinstance(v, dict) and v.get("s") == "nan":
                            r[i] = None
                            changed = True
                if changed and super().agree(rc, model_c):
                    self.nan_string_skips = getattr(self, "nan_string_skips", 0) + 1
                    return True
        except Exception:
            pass
        return False


SUITES = [with_oracle(_K2, oracles.oracle_C06), with_oracle(_K4, oracles.oracle_C06)]
