"""C27 — Windowed and ordered window functions are computed per ordered partition (executor-model part + oracle)."""
from ..suites_ops import K2Build
from .. import oracles, pipes
from .refsem import suite

PROPERTY = "C27"
LEAN_MODULES = ["DAVerif.Props.C27"]
THEOREMS = ["DAVerif." + t for t in (
    "C27_sem_is_ref", "C27_model_order_is_spec", "C27_window_sorted", "C27_reverse", "C27_window_rows",
    "C27_total_order_window_unique", "C27_total_order_unique",
    "win_row_number_spec", "win_cumcount_spec", "win_cumsum_null", "win_cumsum_spec", "win_cumsum_nonull",
    "win_cumprod_null", "win_cumprod_spec", "win_cummax_null", "win_cummax_spec", "win_cummin_null", "win_cummin_spec",
    "win_shift_default", "win_shift_spec", "win_rank_null", "win_rank_spec", "win_ffill_spec", "win_bfill_spec",
    "win_first_spec", "win_last_spec", "win_broadcast_spec", "agg_sum_spec")]
ASSUMPTIONS = [
    "the relational model `sem` with the concrete interpretation Theta.win is the Pandas executor (sort -> groupby -> "
    "transform -> restore order): tied by suite k4_sem on every run",
    "assignment targets of one step are pairwise different (the builder checks it)",
    "window orders total within each partition for the uniqueness statements (the property's scope); with ties both the "
    "model and the specification take tied rows in input order",
    "cumulative functions at null arguments: pandas yields null at the row (proved for the model); SQL carries the running "
    "value (known finding D22, judged by C01)",
    "SQL OVER(...) clauses and Polars: SQL-layer theorems elsewhere; judged by the oracle here",
]
NOT_PROVEN = ["SQLite / PostgreSQL-text / Polars window values (oracle only here: per-row plain-Python reference)",
              "rank/cumcount on SQL (catalogue marks them Pandas-only or different)"]
LEVEL_TEXT = ("Kernel-checked for every pipeline, interpretation, configuration and environment: each assigned cell of a "
              "windowed extend is the window function applied to the argument values of the row's partition in the "
              "declared order (reversed columns descending, nulls last) and to the row's position; the model's "
              "comparison is the textbook lexicographic order; with a total order the window is the unique sorted "
              "arrangement, so values do not depend on input order; and for the concrete transcription of pandas: "
              "cumsum/cumprod/cummax/cummin (running total/product/max/min of the non-null values, null at a null "
              "argument), _row_number, cumcount, shift(k), rank (average), ffill/bfill, first/last (non-null) and the "
              "broadcast aggregates. The model is tied to pandas_base.py by differential execution; all backends are "
              "judged by a per-row plain-Python window reference.")
LEVEL_NOTE = ("Trusted: Lean kernel; axioms propext/Classical.choice/Quot.sound; the hand-written executor model and the "
              "concrete interpretation Theta (validated by k4_sem on every run); SQL/Polars outside these theorems.")
RULE = ("random type-directed pipelines with windowed-extend weight x3, total window orders (unique tiebreak column), "
        "1-3 partition columns with null keys (0.5), multi-column orders with mixed reversal; executed on Pandas and on "
        "the model (k4_sem), judged by oracle_C27 on all four backends (per-row plain-Python reference over each "
        "backend's own input); non-trivial = at least one result row")

CANDS = {"N6-polars-nunique-counts-null": "C27-polars-nunique-counts-null"}

def oracle_C27_declared(case, **opts):
    """oracle_C27 (backends against each other and against the reference window values) plus a metamorphic test of
    "in the DECLARED order": the same calls over tables whose columns are stored in the reverse order must give the same
    rows (a window specification means what it says, not what the table layout suggests)"""
    fs = list(oracles.oracle_C27(case, **opts) or [])
    try:
        t2 = {k: dict(t, cols=list(reversed(t["cols"])), kinds=list(reversed(t["kinds"])),
                      rows=[list(reversed(r)) for r in t["rows"]]) for k, t in case["tables"].items()}
        c2 = dict(case, tables=t2)
        ops1, e1 = pipes.build_or_error(case)
        ops2, e2 = pipes.build_or_error(c2)
        if e1 is None and e2 is None:
            r1, r2 = pipes.run_pandas(ops1, case["tables"]), pipes.run_pandas(ops2, t2)
            if "ok" in r1 and "ok" in r2:
                why = pipes.same_table(r1["ok"], r2["ok"])
                if why:
                    fs.append({"kind": "C27:table-column-order", "finding": None, "candidate": None,
                               "detail": "the same calls over tables with the columns stored in reverse order give other rows: " + str(why)[:300]})
    except Exception:
        pass
    return fs


class _K2(K2Build):
    """the builder calls themselves: window specifications (partition_by, order_by sequence, reverse) arrive in the node as given"""
    gen_opts = dict(K2Build.gen_opts, fault_rate=0.0, window=4.0)
    n_quick, n_thorough = 150, 1500


SUITES = [suite(PROPERTY, oracle_C27_declared, CANDS, n_quick=160, n_thorough=600,
                max_rows=10, window=3.0, total_order=True, null_keys=0.5),
          _K2()]
