"""C22 — Schema-check decorators raise exactly on schema violations (data_algebra/data_schema.py).

Encodings (shared with lean/DAVerif/Drv/Schema.lean):
  Type   := "object"|"bool"|"int"|"float"|"str"|"NoneType"|"np.int64"|"np.float64"|"np.bool"|"np.str"|
            "np.number"|"np.generic"|"NAType"|"pd.DataFrame"|"pl.DataFrame"
  Scalar := {"t": Type, "null": bool}                       a Python object of exactly that class; null = pd.isnull
  Value  := Scalar | {"frame": "pandas"|"polars", "nrows": n, "cols": [[name, [Scalar…]]…], "native": bool}
  Atom   := null | {"ty": Type} | {"ex": Type}              None | a class | an example value of that class
  Spec   := Atom | {"set": [Atom…]} | {"cols": [[name, Spec]…]}
  Call   := {"deco": "raises"|"mock", "arg_specs": null|[[name, Spec]…], "return_spec": Spec,
             "params": [[name, "posonly"|"pos"|"varargs"|"kwonly"|"varkw", has_default]…],
             "args": [Value…], "kwargs": [[name, Value]…], "switch": bool,
             "f": {"ret": Value} | {"raises": "ValueError"|"TypeError"|"KeyError"}, "set_switch": null|bool,
             "binds": bool}                                 binds = Python itself can bind the call to the signature
  Out    := {"ok": "same", "sw": bool} | {"err": class, "kind": "own"|"args"|"return"|"internal", "sw": bool
             [, "issues": [["bad"|"missing", arg]…]]}
"""
import inspect
import itertools
import json
import os
import re

from ..core import Suite, VERIF

PROPERTY = "C22"
LEAN_MODULES = ["DAVerif.Props.C22"]
THEOREMS = [
    "DAVerif.Schema.C22_check_iff",
    "DAVerif.Schema.C22_cols_iff",
    "DAVerif.Schema.C22_args_iff_partial",
    "DAVerif.Schema.C22_G1_necessary",
    "DAVerif.Schema.C22_G1_necessary_misbinding",
    "DAVerif.Schema.C22_raises_iff_partial",
    "DAVerif.Schema.C22_transparent",
    "DAVerif.Schema.C22_no_violation_partial",
    "DAVerif.Schema.C22_switch_off",
    "DAVerif.Schema.C22_switch_read_at_check_time",
    "DAVerif.Schema.C22_no_arg_specs",
    "DAVerif.Schema.C22_mock",
    "DAVerif.Schema.C22_examples",
    "DAVerif.Schema.C22_pytype_sub",
]
ASSUMPTIONS = [
    "REQUIRES the repairs fixes/C22-schema-set-normalization.diff and fixes/C22-schema-none-arg-specs.diff in the "
    "checked tree (the model is the repaired code)",
    "a Python value is seen by the checker only through type(v), issubclass and pd.isnull(v); cells of a frame are "
    "scalars (pd.isnull returns a bool), frames are rectangular with distinct column names",
    "iterating a Pandas/Polars column yields the cell objects described in the case (checked by the harness on every "
    "materialised frame)",
    "the issubclass table of the 15-class universe (theorems hold for every universe; the driver's table is compared "
    "with Python's issubclass on all 225 pairs in every run)",
    "reading (DESIGN Appendix B): a None *argument* is checked like any value, null *cells* are exempt; a None inside a "
    "type set declares nothing; on a call Python itself cannot bind, either TypeError (schema or the function's own) "
    "is accepted",
    "known finding C22-positional-by-index (guard G1: no positional argument beyond the positional parameters)",
]
NOT_PROVEN = [
    "message texts (only the kind of each message and the argument / column names in it are compared)",
    "functools.wraps metadata and the generated __doc__ of the wrapper",
]
LEVEL_TEXT = ("Kernel-checked for every type universe, specification, value, wrapped function and switch state: "
              "_check_spec after _prep_schema_specification returns no message iff the value conforms (declared columns "
              "present, every non-null cell of a declared class; a None argument not exempt); check_args raises TypeError "
              "iff a declared argument is missing or non-conforming, the wrapper raises exactly then or when the return "
              "value does not conform, is otherwise identical to the undecorated call, and with the switch off is always "
              "identical to it; example values normalise to their class alone and inside sets. The argument theorems "
              "carry guard G1 (known finding: positional arguments are matched to parameter names by index).")
LEVEL_NOTE = ("Trusted: Lean kernel; axioms propext/Classical.choice/Quot.sound; the hand-written model of data_schema.py "
              "(with the two fixes applied), validated on every run against the real decorators on generated and "
              "small-scope exhaustive (spec, value) and (spec, call) cases; Python's issubclass/pd.isnull as primitives.")
RULE = ("schema: random decorated calls over 8 signature shapes (positional-only, keyword-only, *args, **kwargs, defaults), "
        "specs mostly derived from the passed values (so that conforming and near-miss calls are frequent) plus a malformed "
        "stream (missing / duplicated / unknown / surplus arguments); schema_check: random and (thorough) exhaustive "
        "(spec, value) pairs over 26 atoms, sets of <= 2 of 11 atoms, 13 scalar kinds, Pandas and Polars frames with <= 2 "
        "cells per column; non-trivial = a declared spec is actually consulted (not None / switch on)")

TYPE_NAMES = ["object", "bool", "int", "float", "str", "NoneType", "np.int64", "np.float64", "np.bool", "np.str",
              "np.number", "np.generic", "NAType", "pd.DataFrame", "pl.DataFrame"]
# kinds of scalar values (class, null?) that exist in Python
VAL_KINDS = [("bool", False), ("int", False), ("float", False), ("float", True), ("str", False), ("NoneType", True),
             ("np.int64", False), ("np.float64", False), ("np.float64", True), ("np.bool", False), ("np.str", False),
             ("NAType", True), ("object", False)]
EX_TYPES_SET = ["bool", "int", "float", "str", "np.int64", "np.float64", "np.bool", "np.str", "NAType", "object"]
EX_TYPES = EX_TYPES_SET + ["pd.DataFrame", "pl.DataFrame"]
COLS = ["x", "y", "z", "w"]

_T = {}


def _types():
    if not _T:
        import numpy as np
        import pandas as pd
        import polars as pl
        _T.update({"object": object, "bool": bool, "int": int, "float": float, "str": str, "NoneType": type(None),
                   "np.int64": np.int64, "np.float64": np.float64, "np.bool": np.bool_, "np.str": np.str_,
                   "np.number": np.number, "np.generic": np.generic, "NAType": type(pd.NA),
                   "pd.DataFrame": pd.DataFrame, "pl.DataFrame": pl.DataFrame})
    return _T


def _mod():
    import data_algebra.data_schema as m
    return m


# ------------------------------------------------------------------------------------------------
# materialisation of case descriptions as Python objects
# ------------------------------------------------------------------------------------------------

class HarnessError(Exception):
    pass


def is_null_ref(v):
    import pandas as pd
    return v is None or v is pd.NA or (isinstance(v, float) and v != v)


def mk_scalar(s):
    import numpy as np
    import pandas as pd
    t, null = s["t"], s["null"]
    if (t, null) not in VAL_KINDS:
        raise HarnessError(f"no Python value of kind {t} null={null}")
    if t == "bool":
        return True
    if t == "int":
        return 7
    if t == "float":
        return float("nan") if null else 2.5
    if t == "str":
        return "s"
    if t == "NoneType":
        return None
    if t == "np.int64":
        return np.int64(11)
    if t == "np.float64":
        return np.float64("nan") if null else np.float64(3.5)
    if t == "np.bool":
        return np.bool_(False)
    if t == "np.str":
        return np.str_("q")
    if t == "NAType":
        return pd.NA
    if t == "object":
        return object()
    raise HarnessError(t)


def type_name_of(v):
    for k, t in _types().items():
        if type(v) is t:
            return k
    return "?" + type(v).__name__


NATIVE_OK = {"int", "float", "str", "bool"}


def mk_frame(fr):
    import pandas as pd
    import polars as pl
    kind, nrows, cols = fr["frame"], fr["nrows"], fr["cols"]
    names = [c for c, _ in cols]
    if len(set(names)) != len(names):
        raise HarnessError("duplicate column names")
    data = {}
    for c, cells in cols:
        if len(cells) != nrows:
            raise HarnessError("non-rectangular frame")
        objs = [mk_scalar(x) for x in cells]
        ts = {x["t"] for x in cells}
        native = bool(fr.get("native")) and len(ts) == 1 and ts <= NATIVE_OK and nrows > 0 and (
            not any(x["null"] for x in cells) or ts == {"float"})
        if kind == "pandas":
            data[c] = pd.Series(objs) if native else pd.Series(objs, dtype=object)
        else:
            data[c] = pl.Series(c, objs) if native else pl.Series(c, objs, dtype=pl.Object)
    if kind == "pandas":
        d = pd.DataFrame(data, index=range(nrows)) if cols else pd.DataFrame(index=range(nrows))
    else:
        if not cols and nrows != 0:
            raise HarnessError("a Polars frame without columns has no rows")
        d = pl.DataFrame(data)
    # the harness's own assumption, checked: the frame shows exactly the described cells
    if d.shape[0] != nrows or list(d.columns) != names:
        raise HarnessError(f"materialised frame has shape {d.shape}, columns {list(d.columns)}")
    for c, cells in cols:
        seen = [(type_name_of(v), bool(is_null_ref(v))) for v in d[c]]
        want = [(x["t"], x["null"]) for x in cells]
        if seen != want:
            raise HarnessError(f"column {c} shows {seen}, described {want}")
    return d


def mk_value(v):
    return mk_frame(v) if "frame" in v else mk_scalar(v)


def mk_example(t):
    import pandas as pd
    import polars as pl
    if t == "pd.DataFrame":
        return pd.DataFrame({"q": [1]})
    if t == "pl.DataFrame":
        return pl.DataFrame({"q": [1]})
    if t not in EX_TYPES_SET:
        raise HarnessError(f"no example value of class {t}")
    return mk_scalar({"t": t, "null": t == "NAType"})


def mk_atom(a):
    if a is None:
        return None
    if "ty" in a:
        return _types()[a["ty"]]
    return mk_example(a["ex"])


def mk_spec(s):
    if isinstance(s, dict) and "set" in s:
        objs = [mk_atom(a) for a in s["set"]]
        r = set(objs)
        if len(r) != len({json.dumps(a, sort_keys=True) for a in s["set"]}):
            raise HarnessError("set members collide")
        return r
    if isinstance(s, dict) and "cols" in s:
        return {c: mk_spec(x) for c, x in s["cols"]}
    return mk_atom(s)


def spec_to_json(p):
    """the real normalised specification → JSON (sets sorted; a non-class member is shown as {"raw": class})"""
    names = {t: k for k, t in _types().items()}
    if p is None:
        return None
    if isinstance(p, type):
        return {"ty": names.get(p, "?" + p.__name__)}
    if isinstance(p, set):
        ms = []
        for x in p:
            if x is None:
                ms.append("None")
            elif isinstance(x, type):
                ms.append(names.get(x, "?" + x.__name__))
            else:
                ms.append("raw:" + type(x).__name__)
        return {"set": sorted(ms)}
    if isinstance(p, dict):
        return {"cols": [[k, spec_to_json(v)] for k, v in p.items()]}
    return {"raw": type(p).__name__}


# ------------------------------------------------------------------------------------------------
# the independent reference: what the property says, in plain Python over the case description
# ------------------------------------------------------------------------------------------------

def ref_issub(a, b):
    return issubclass(_types()[a], _types()[b])


def ref_vtype(v):
    if "frame" in v:
        return "pd.DataFrame" if v["frame"] == "pandas" else "pl.DataFrame"
    return v["t"]


def ref_declared(atom):
    if atom is None:
        return None
    return atom.get("ty") or atom.get("ex")


def ref_conforms(spec, v):
    if spec is None:
        return True
    if "set" in spec:
        return any(ref_declared(a) is not None and ref_issub(ref_vtype(v), ref_declared(a)) for a in spec["set"])
    if "cols" in spec:
        if "frame" not in v:
            return False
        have = dict((c, cells) for c, cells in v["cols"])
        for c, s in spec["cols"]:
            if c not in have:
                return False
            for cell in have[c]:
                if not cell["null"] and not ref_conforms(s, cell):
                    return False
        return True
    return ref_issub(ref_vtype(v), ref_declared(spec))


def ref_normal(spec):
    if spec is None:
        return None
    if "set" in spec:
        return {"set": sorted({ref_declared(a) for a in spec["set"] if a is not None})}
    if "cols" in spec:
        return {"cols": [[c, ref_normal(s)] for c, s in spec["cols"]]}
    return {"ty": ref_declared(spec)}


def drop_none_members(j):
    if isinstance(j, dict) and "set" in j:
        return {"set": [m for m in j["set"] if m != "None"]}
    if isinstance(j, dict) and "cols" in j:
        return {"cols": [[c, drop_none_members(s)] for c, s in j["cols"]]}
    return j


# ------------------------------------------------------------------------------------------------
# functions and calls
# ------------------------------------------------------------------------------------------------

def fn_source(params):
    parts = []
    kinds = [p[1] for p in params]
    for i, p in enumerate(params):
        name, kind = p[0], p[1]
        dflt = "=None" if (len(p) > 2 and p[2]) else ""
        if kind == "varargs":
            parts.append("*" + name)
        elif kind == "varkw":
            parts.append("**" + name)
        else:
            if kind == "kwonly" and "varargs" not in kinds and (i == 0 or kinds[i - 1] != "kwonly"):
                parts.append("*")
            parts.append(name + dflt)
        if kind == "posonly" and (i + 1 == len(params) or kinds[i + 1] != "posonly"):
            parts.append("/")
    return ("def fn(" + ", ".join(parts) + "):\n"
            "    if SETSW is not None:\n"
            "        (SWITCH.on if SETSW else SWITCH.off)()\n"
            "    if RAISES is not None:\n"
            "        raise RAISES('own')\n"
            "    return RET\n")


def make_fn(params, ret=None, raises=None, set_switch=None, switch=None):
    ns = {"RET": ret, "RAISES": raises, "SETSW": set_switch, "SWITCH": switch}
    exec(compile(fn_source(params), "<c22-fn>", "exec"), ns)
    return ns["fn"]


def compute_binds(case):
    fn = make_fn(case["params"])
    try:
        inspect.signature(fn).bind(*[0] * len(case["args"]), **{k: 0 for k, _ in case["kwargs"]})
        return True
    except TypeError:
        return False


def npos_of(params):
    n = 0
    for p in params:
        if p[1] in ("posonly", "pos"):
            n += 1
        else:
            break
    return n


EXC = {"ValueError": ValueError, "TypeError": TypeError, "KeyError": KeyError}
CHECKER_FNS = {"check_args", "check_return", "_check_spec", "_check_data_frame_matches_schema", "is_data_frame",
               "_is_null", "_type_name"}
HEADER_RE = re.compile(r"\A\nfunction fn\(\), issues:\n")


def classify(e):
    """where did the exception come from: the function / Python's binding ('own') or the checker"""
    tb = e.__traceback__
    inner = None
    while tb is not None:
        code = tb.tb_frame.f_code
        if code.co_filename.endswith("data_schema.py") and code.co_name in CHECKER_FNS:
            inner = code.co_name
        tb = tb.tb_next
    if inner is None:
        return {"err": type(e).__name__, "kind": "own"}
    if isinstance(e, TypeError) and inner == "check_args" and e.args and isinstance(e.args[0], str) \
            and HEADER_RE.match(e.args[0]):
        issues = []
        for ln in HEADER_RE.sub("", e.args[0]).split("  \n"):
            m = re.fullmatch(r"expected arg (\w+) missing", ln)
            if m:
                issues.append(["missing", m.group(1)])
                continue
            m = re.match(r"arg (\w+) ", ln)
            issues.append(["bad", m.group(1)] if m else ["?", ln[:40]])
        return {"err": "TypeError", "kind": "args", "issues": issues}
    if isinstance(e, TypeError) and inner == "check_return" and len(e.args) == 2 and isinstance(e.args[0], str) \
            and e.args[0].startswith("fn() return value: "):
        return {"err": "TypeError", "kind": "return"}
    return {"err": type(e).__name__, "kind": "internal"}


def msg_kind(msg):
    if msg is None:
        return None
    if msg.startswith("expected type one of "):
        return {"msg": "notOneOf"}
    if msg.startswith("expected type "):
        return {"msg": "wrongType"}
    if msg.startswith("expected a Pandas or Polars data frame"):
        return {"msg": "notAFrame"}
    issues = []
    for m in re.finditer(r"missing required column '([^']*)'| column '([^']*)' ", msg):
        issues.append(["missing", m.group(1)] if m.group(1) is not None else ["bad", m.group(2)])
    return {"msg": "columns", "issues": issues}


# ------------------------------------------------------------------------------------------------
# generators
# ------------------------------------------------------------------------------------------------

def rand_scalar(rng, pool=VAL_KINDS):
    t, n = rng.choice(pool)
    return {"t": t, "null": n}


COMMON_KINDS = [("int", False), ("float", False), ("str", False), ("bool", False), ("float", True), ("NoneType", True)]


def rand_frame(rng, maxcols=3, maxrows=3):
    kind = rng.choice(["pandas", "polars"])
    ncols = rng.randint(0, maxcols)
    names = rng.sample(COLS, ncols)
    nrows = rng.choice([0, 1, 1, 2, 2, 3][:maxrows + 3])
    if kind == "polars" and ncols == 0:
        nrows = 0
    native = rng.random() < 0.4
    cols = []
    for c in names:
        base = rng.choice(COMMON_KINDS if rng.random() < 0.7 else VAL_KINDS)
        cells = []
        for _ in range(nrows):
            r = rng.random()
            if r < 0.6:
                k = base
            elif r < 0.8:
                if native and base[0] == "float":
                    k = ("float", True)
                elif native and kind == "polars":
                    k = ("NoneType", True)
                else:
                    k = rng.choice([("NoneType", True), ("float", True), ("NAType", True)])
            else:
                k = rng.choice(VAL_KINDS)
            cells.append({"t": k[0], "null": k[1]})
        cols.append([c, cells])
    return {"frame": kind, "nrows": nrows, "cols": cols, "native": native}


def rand_value(rng, p_frame=0.3):
    return rand_frame(rng) if rng.random() < p_frame else rand_scalar(rng)


def rand_atom(rng, in_set=False):
    r = rng.random()
    if r < 0.12:
        return None
    if r < 0.6:
        return {"ty": rng.choice(TYPE_NAMES)}
    return {"ex": rng.choice(EX_TYPES_SET if in_set else EX_TYPES)}


def uniq_atoms(atoms):
    out, seen = [], set()
    for a in atoms:
        k = json.dumps(a, sort_keys=True)
        if k not in seen:
            seen.add(k)
            out.append(a)
    return out


def rand_spec(rng, depth=0):
    r = rng.random()
    if r < 0.45 or depth >= 2:
        if rng.random() < 0.7:
            return rand_atom(rng)
        return {"set": uniq_atoms([rand_atom(rng, True) for _ in range(rng.randint(0, 3))])}
    if r < 0.65:
        return {"set": uniq_atoms([rand_atom(rng, True) for _ in range(rng.randint(0, 3))])}
    names = rng.sample(COLS, rng.randint(0, 3))
    return {"cols": [[c, rand_spec(rng, depth + 1)] for c in names]}


SUPERS = {"bool": ["int", "object"], "int": ["object"], "float": ["object"], "str": ["object"], "NoneType": ["object"],
          "np.int64": ["np.number", "np.generic", "object"], "np.float64": ["float", "np.number", "np.generic"],
          "np.bool": ["np.generic"], "np.str": ["str", "np.generic"], "NAType": ["object"], "object": [],
          "pd.DataFrame": ["object"], "pl.DataFrame": ["object"]}


def atom_for_type(rng, t, in_set=False):
    r = rng.random()
    if r < 0.4:
        return {"ty": t}
    if r < 0.7 and (t in EX_TYPES_SET or (not in_set and t in EX_TYPES)):
        return {"ex": t}
    if r < 0.85 and SUPERS.get(t):
        return {"ty": rng.choice(SUPERS[t])}
    return rand_atom(rng, in_set)      # usually a miss


def spec_for_value(rng, v, depth=0):
    """a specification built around the value: conforming most of the time, a near miss otherwise"""
    if "frame" in v and rng.random() < 0.8 and depth < 2:
        cols = []
        for c, cells in v["cols"]:
            if rng.random() < 0.8:
                ts = uniq_atoms([atom_for_type(rng, x["t"], True) for x in cells if not x["null"] or rng.random() < 0.2])
                if len(ts) == 1 and rng.random() < 0.6:
                    cols.append([c, ts[0]])
                elif not ts and rng.random() < 0.5:
                    cols.append([c, rand_atom(rng)])
                else:
                    cols.append([c, {"set": ts}])
        if rng.random() < 0.15:
            cols.append([rng.choice(COLS), rand_atom(rng)])      # possibly missing / duplicate name
            if len({c for c, _ in cols}) != len(cols):
                cols.pop()
        rng.shuffle(cols)
        return {"cols": cols}
    t = ref_vtype(v)
    r = rng.random()
    if r < 0.55:
        return atom_for_type(rng, t)
    if r < 0.9:
        ms = [atom_for_type(rng, t, True)] + [rand_atom(rng, True) for _ in range(rng.randint(0, 2))]
        rng.shuffle(ms)
        return {"set": uniq_atoms(ms)}
    return rand_spec(rng, depth)


SHAPES = [
    [["a", "pos", False], ["b", "pos", False]],
    [["a", "posonly", False], ["b", "pos", False], ["c", "kwonly", False], ["d", "kwonly", True]],
    [["a", "pos", False], ["b", "pos", True], ["kw", "varkw", False]],
    [["a", "pos", False], ["b", "pos", False], ["c", "pos", True]],
    [],
    [["a", "pos", False]],
    [["a", "pos", False], ["rest", "varargs", False]],
    [["a", "pos", False], ["rest", "varargs", False], ["b", "kwonly", False]],
]


def rand_call(rng, dist):
    shape = rng.choice(SHAPES[:6]) if rng.random() < 0.9 else rng.choice(SHAPES[6:])
    params = [list(p) for p in shape]
    kinds = {p[0]: p[1] for p in params}
    has_varkw = "varkw" in kinds.values()
    has_varargs = "varargs" in kinds.values()
    args, kwargs = [], []
    kw_mode = False
    for name, kind, dflt in params:
        if kind in ("varargs", "varkw"):
            continue
        if dflt and rng.random() < 0.5:
            kw_mode = True
            continue
        v = rand_value(rng)
        if kind == "posonly" or (kind == "pos" and not kw_mode and rng.random() < 0.6):
            args.append(v)
        else:
            kw_mode = True
            kwargs.append([name, v])
    if has_varargs and not kwargs_has_pos(kwargs, params) and rng.random() < 0.7:
        for _ in range(rng.randint(1, 2)):
            args.append(rand_value(rng, 0.1))
    if has_varkw and rng.random() < 0.5:
        kwargs.append(["zz", rand_value(rng)])
    # malformed stream
    r = rng.random()
    mal = None
    if r < 0.05 and kwargs:
        kwargs.pop(rng.randrange(len(kwargs)))
        mal = "dropped-kw"
    elif r < 0.09 and args:
        args.pop()
        mal = "dropped-pos"
    elif r < 0.12 and not has_varargs:
        args.append(rand_value(rng, 0.1))
        mal = "surplus-pos"
    elif r < 0.15 and args and params and params[0][1] == "pos":
        kwargs.append([params[0][0], rand_value(rng)])
        mal = "duplicate"
    elif r < 0.18:
        kwargs.append(["qq", rand_value(rng)])
        mal = "unknown-kw"
    rng.shuffle(kwargs)
    # what is passed for each name (reference binding), to build specs around it
    npos = npos_of(params)
    passed = {}
    for i, v in enumerate(args[:npos]):
        passed[params[i][0]] = v
    for k, v in kwargs:
        passed.setdefault(k, v)
    declarable = [p[0] for p in params if p[1] not in ("varargs", "varkw")] + (["zz"] if has_varkw else [])
    r = rng.random()
    if r < 0.06:
        arg_specs = None
    else:
        arg_specs = []
        for k in declarable:
            if rng.random() < 0.65:
                if k in passed and rng.random() < 0.8:
                    arg_specs.append([k, spec_for_value(rng, passed[k])])
                else:
                    arg_specs.append([k, rand_spec(rng)])
        rng.shuffle(arg_specs)
    if rng.random() < 0.15:
        f = {"raises": rng.choice(["ValueError", "TypeError", "KeyError"])}
        return_spec = rand_spec(rng)
    else:
        ret = rand_value(rng)
        f = {"ret": ret}
        return_spec = spec_for_value(rng, ret) if rng.random() < 0.75 else rand_spec(rng)
    case = {"deco": "mock" if rng.random() < 0.04 else "raises", "arg_specs": arg_specs, "return_spec": return_spec,
            "params": params, "args": args, "kwargs": kwargs, "switch": rng.random() < 0.85, "f": f,
            "set_switch": rng.choice([None, None, None, None, True, False])}
    case["binds"] = compute_binds(case)
    dist["shape:" + ",".join(p[1] for p in params)] = dist.get("shape:" + ",".join(p[1] for p in params), 0) + 1
    if mal:
        dist["malformed:" + mal] = dist.get("malformed:" + mal, 0) + 1
    return case


def kwargs_has_pos(kwargs, params):
    pos = {p[0] for p in params if p[1] in ("pos", "posonly")}
    return any(k in pos for k, _ in kwargs)


def bump(d, k):
    d[k] = d.get(k, 0) + 1


# ------------------------------------------------------------------------------------------------
# suite: decorated calls
# ------------------------------------------------------------------------------------------------

FINDING_ID = "C22-positional-by-index"


class Calls(Suite):
    name = "schema"

    def __init__(self):
        self.distribution = {}
        self._guards = {}

    def corpus(self):
        out = []
        d = os.path.join(VERIF, "corpus", "C22")
        if os.path.isdir(d):
            for fn in sorted(os.listdir(d)):
                if fn.endswith(".json"):
                    obj = json.load(open(os.path.join(d, fn)))
                    if obj.get("suite") == self.name:
                        out.append(obj["case"])
        return out

    def gen(self, rng, tier):
        n = 2500 if tier == "quick" else 40000
        for _ in range(n):
            yield rand_call(rng, self.distribution)
        if tier == "thorough":
            yield from self.exhaustive()

    def exhaustive(self):
        """def fn(a, b): every way of passing / omitting a and b × 6 specs each × 5 value kinds × switch"""
        I, S, N, B, F = [{"t": t, "null": n} for t, n in
                         [("int", False), ("str", False), ("NoneType", True), ("bool", False), ("float", True)]]
        specs = [None, {"ty": "int"}, {"ex": "int"}, {"set": [{"ex": "str"}, {"ty": "bool"}, None]}, {"ty": "NoneType"},
                 {"cols": []}]
        params = [["a", "pos", False], ["b", "pos", False]]
        ways = [([], []), (["a"], []), (["a", "b"], []), (["a"], ["b"]), ([], ["a", "b"]), ([], ["b"]), ([], ["a"]),
                ([], ["b", "a"]), (["a", "b"], ["a"])]
        for sa, sb, (pos, kw), va, vb, sw in itertools.product(specs, specs, ways, [I, S, N, B, F], [I, N, B], [True, False]):
            vals = {"a": va, "b": vb}
            case = {"deco": "raises", "arg_specs": [["b", sb], ["a", sa]], "return_spec": sa, "params": params,
                    "args": [vals[k] for k in pos], "kwargs": [[k, vals[k]] for k in kw], "switch": sw,
                    "f": {"ret": vb}, "set_switch": None}
            case["binds"] = compute_binds(case)
            yield case

    def real(self, case):
        m = _mod()
        sw = m.SchemaCheckSwitch()
        if case["binds"] != compute_binds(case):
            raise HarnessError("case field 'binds' does not match Python's own binding")
        arg_specs = None if case["arg_specs"] is None else {k: mk_spec(s) for k, s in case["arg_specs"]}
        return_spec = mk_spec(case["return_spec"])
        args = [mk_value(v) for v in case["args"]]
        kwargs = {k: mk_value(v) for k, v in case["kwargs"]}
        if len(kwargs) != len(case["kwargs"]):
            raise HarnessError("duplicate keyword")
        f = case["f"]
        ret = mk_value(f["ret"]) if "ret" in f else None
        fn = make_fn(case["params"], ret=ret, raises=EXC[f["raises"]] if "raises" in f else None,
                     set_switch=case["set_switch"], switch=sw)
        try:
            # decoration is independent of the switch: half of the cases (a fixed function of the case) are decorated
            # while checking is switched off, so a wrapper that reads the switch when it is built is seen
            import zlib
            deco_on = bool(zlib.crc32(json.dumps(case, sort_keys=True, default=str).encode()) & 1)
            (sw.on if deco_on else sw.off)()
            deco = {"raises": m.SchemaRaises, "mock": m.SchemaMock}[case["deco"]]
            if arg_specs is None:
                wrapped = deco(return_spec=return_spec)(fn)      # the constructor's default
            else:
                wrapped = deco(arg_specs, return_spec=return_spec)(fn)
            (sw.on if case["switch"] else sw.off)()
            try:
                r = wrapped(*args, **kwargs)
                out = {"ok": "same" if r is ret else "changed:" + type(r).__name__}
            except Exception as e:  # noqa: BLE001 - every exception is an outcome
                out = classify(e)
            out["sw"] = bool(sw.is_on())
            return out
        finally:
            sw.on()

    def model_canon(self, out, case=None):
        if isinstance(out, dict) and "guards" in out:
            out = dict(out)
            self._guards[json.dumps(case, sort_keys=True)] = out.pop("guards")
        return out

    # ---- the property, in plain Python -------------------------------------------------------------
    def expected(self, case):
        """(list of acceptable outcomes as (ok/err, kind), expected final switch or None when open)"""
        f = case["f"]
        own_runs = case["binds"]
        if not own_runs:
            own = ("TypeError", "own")
            sw_after_own = case["switch"]
        else:
            own = ("ok", "same") if "ret" in f else (f["raises"], "own")
            sw_after_own = case["switch"] if case["set_switch"] is None else case["set_switch"]
        if case["deco"] == "mock":
            return [own], sw_after_own
        viol = False
        if case["switch"] and case["arg_specs"] is not None:
            npos = npos_of(case["params"])
            passed = {}
            for i, v in enumerate(case["args"][:npos]):
                passed[case["params"][i][0]] = v
            for k, v in case["kwargs"]:
                passed.setdefault(k, v)
            for k, s in case["arg_specs"]:
                if k not in passed or not ref_conforms(s, passed[k]):
                    viol = True
        if viol:
            acc = [("TypeError", "args")]
            if not case["binds"]:
                acc.append(("TypeError", "own"))      # ill-formed call: either TypeError is what the property asks
            return acc, case["switch"] if case["binds"] else None
        if own == ("ok", "same") and sw_after_own and not ref_conforms(case["return_spec"], f["ret"]):
            return [("TypeError", "return")], sw_after_own
        return [own], sw_after_own

    def oracle(self, case, real_out):
        if not isinstance(real_out, dict) or "harness_exc" in real_out:
            return "harness: " + str(real_out)[:300]
        acc, sw_exp = self.expected(case)
        got = ("ok", real_out["ok"]) if "ok" in real_out else (real_out.get("err"), real_out.get("kind"))
        if got not in acc:
            if got[1] == "internal":
                kind = "internal-" + str(got[0])
            elif got[0] == "ok" and acc[0][0] != "ok":
                kind = "missed-violation"
            elif got[1] in ("args", "return") and acc[0][1] not in ("args", "return"):
                kind = "spurious-TypeError"
            elif got[0] == "ok":
                kind = "result-changed"
            else:
                kind = "wrong-outcome"
            return f"{kind}: the call ended as {got}, the property requires {acc}"
        if sw_exp is not None and real_out.get("sw") != sw_exp:
            return f"switch: the wrapper left the switch {real_out.get('sw')}, expected {sw_exp}"
        return None

    def finding(self, case, real_out, why):
        g = self._guards.get(json.dumps(case, sort_keys=True))
        if g is None:
            g = ["G1"] if len(case["args"]) > npos_of(case["params"]) else []
        if "G1" in g and case["deco"] == "raises":
            return FINDING_ID
        return None

    def nontrivial(self, case, real_out):
        return bool(case["deco"] == "raises" and case["switch"] and (case["arg_specs"] or case["return_spec"] is not None)
                    and (case["args"] or case["kwargs"]))

    def shrink(self, case):
        def mk(**kw):
            c = dict(case)
            c.update(kw)
            c["binds"] = compute_binds(c)
            return c
        if case["set_switch"] is not None:
            yield mk(set_switch=None)
        for i in range(len(case["kwargs"])):
            yield mk(kwargs=case["kwargs"][:i] + case["kwargs"][i + 1:])
        if case["args"]:
            yield mk(args=case["args"][:-1])
        if case["arg_specs"]:
            for i in range(len(case["arg_specs"])):
                yield mk(arg_specs=case["arg_specs"][:i] + case["arg_specs"][i + 1:])
            for i, (k, s) in enumerate(case["arg_specs"]):
                for s2 in shrink_spec(s):
                    yield mk(arg_specs=case["arg_specs"][:i] + [[k, s2]] + case["arg_specs"][i + 1:])
        for s2 in shrink_spec(case["return_spec"]):
            yield mk(return_spec=s2)
        for i, v in enumerate(case["args"]):
            for v2 in shrink_value(v):
                yield mk(args=case["args"][:i] + [v2] + case["args"][i + 1:])
        for i, (k, v) in enumerate(case["kwargs"]):
            for v2 in shrink_value(v):
                yield mk(kwargs=case["kwargs"][:i] + [[k, v2]] + case["kwargs"][i + 1:])
        if "ret" in case["f"]:
            for v2 in shrink_value(case["f"]["ret"]):
                yield mk(f={"ret": v2})
        if case["params"] and len(case["args"]) + len(case["kwargs"]) < len(case["params"]):
            yield mk(params=case["params"][:-1])


def shrink_spec(s):
    if s is None:
        return
    yield None
    if "set" in s:
        for i in range(len(s["set"])):
            yield {"set": s["set"][:i] + s["set"][i + 1:]}
        if len(s["set"]) == 1:
            yield s["set"][0]
    elif "cols" in s:
        for i in range(len(s["cols"])):
            yield {"cols": s["cols"][:i] + s["cols"][i + 1:]}
        for i, (c, x) in enumerate(s["cols"]):
            for x2 in shrink_spec(x):
                yield {"cols": s["cols"][:i] + [[c, x2]] + s["cols"][i + 1:]}


def shrink_value(v):
    if "frame" not in v:
        if v != {"t": "int", "null": False}:
            yield {"t": "int", "null": False}
        return
    yield {"t": "int", "null": False}
    if v.get("native"):
        yield dict(v, native=False)
    for i in range(len(v["cols"])):
        yield dict(v, cols=v["cols"][:i] + v["cols"][i + 1:],
                   nrows=v["nrows"] if (len(v["cols"]) > 1 or v["frame"] == "pandas") else 0)
    for r in range(v["nrows"]):
        yield dict(v, nrows=v["nrows"] - 1, cols=[[c, cells[:r] + cells[r + 1:]] for c, cells in v["cols"]])


# ------------------------------------------------------------------------------------------------
# suite: _check_spec(_prep_schema_specification(spec), value)
# ------------------------------------------------------------------------------------------------

ATOMS = [None] + [{"ty": t} for t in TYPE_NAMES] + [{"ex": t} for t in EX_TYPES_SET]
SET_ATOMS = [None, {"ty": "int"}, {"ty": "bool"}, {"ty": "float"}, {"ty": "object"}, {"ty": "np.number"},
             {"ty": "NoneType"}, {"ex": "int"}, {"ex": "float"}, {"ex": "np.float64"}, {"ex": "str"}]


class Checks(Suite):
    name = "schema_check"

    def __init__(self):
        self.distribution = {}

    def gen(self, rng, tier):
        n = 2500 if tier == "quick" else 30000
        for _ in range(n):
            v = rand_value(rng, 0.5)
            s = spec_for_value(rng, v) if rng.random() < 0.7 else rand_spec(rng)
            bump(self.distribution, "value:" + ("frame-" + v["frame"] if "frame" in v else "scalar"))
            bump(self.distribution, "spec:" + ("none" if s is None else "set" if "set" in s else "cols" if "cols" in s
                                               else "example" if "ex" in s else "type"))
            yield {"spec": s, "value": v}
        if tier == "thorough":
            yield from self.exhaustive()

    def exhaustive(self):
        scalars = [{"t": t, "null": n} for t, n in VAL_KINDS]
        sets = [{"set": list(c)} for k in (0, 1, 2) for c in itertools.combinations(SET_ATOMS, k)]
        simple = ATOMS + [{"ex": "pd.DataFrame"}, {"ex": "pl.DataFrame"}] + sets
        small_frames = []
        for kind in ("pandas", "polars"):
            small_frames.append({"frame": kind, "nrows": 0, "cols": [], "native": False})
            small_frames.append({"frame": kind, "nrows": 1, "cols": [["x", [{"t": "int", "null": False}]]], "native": True})
        for s in simple:
            for v in scalars + small_frames:
                yield {"spec": s, "value": v}
        col_specs = ATOMS + sets[::3] + [{"cols": []}, {"cols": [["x", {"ty": "int"}]]}]
        cell_lists = [[]] + [[a] for a in scalars] + [[a, b] for a in scalars for b in scalars]
        for kind in ("pandas", "polars"):
            for cs in col_specs:
                for cells in cell_lists:
                    fr = {"frame": kind, "nrows": len(cells), "cols": [["x", cells]], "native": False}
                    yield {"spec": {"cols": [["x", cs]]}, "value": fr}
            for cells in cell_lists[:40]:
                fr = {"frame": kind, "nrows": len(cells), "cols": [["y", cells], ["x", cells[::-1]]], "native": True}
                for spec in ({"cols": [["x", {"ty": "int"}], ["z", None]]}, {"cols": [["z", None], ["y", {"ex": "float"}]]},
                             {"cols": [["y", {"set": [{"ex": "int"}, {"ty": "str"}]}], ["x", {"ty": "object"}]]},
                             {"cols": []}):
                    yield {"spec": spec, "value": fr}
        for s in ({"cols": []}, {"cols": [["x", None]]}, {"cols": [["x", {"ty": "int"}]]}):
            for v in scalars:
                yield {"spec": s, "value": v}

    def real(self, case):
        m = _mod()
        sch = m.SchemaRaises({}, return_spec=mk_spec(case["spec"]))
        v = mk_value(case["value"])
        try:
            return msg_kind(sch._check_spec(expected_type=sch.return_spec, observed_value=v))
        except Exception as e:  # noqa: BLE001
            return {"err": type(e).__name__}

    def oracle(self, case, real_out):
        if isinstance(real_out, dict) and "harness_exc" in real_out:
            return "harness: " + str(real_out)[:300]
        ok = ref_conforms(case["spec"], case["value"])
        if isinstance(real_out, dict) and "err" in real_out:
            return f"check-raised: _check_spec raised {real_out['err']} (value {'conforms' if ok else 'does not conform'})"
        if ok and real_out is not None:
            return f"spurious-message: the value conforms but _check_spec reports {real_out}"
        if not ok and real_out is None:
            return "missed-violation: the value does not conform but _check_spec reports nothing"
        return None

    def nontrivial(self, case, real_out):
        return case["spec"] is not None

    def shrink(self, case):
        for s2 in shrink_spec(case["spec"]):
            yield {"spec": s2, "value": case["value"]}
        for v2 in shrink_value(case["value"]):
            yield {"spec": case["spec"], "value": v2}


# ------------------------------------------------------------------------------------------------
# suite: _prep_schema_specification(spec)
# ------------------------------------------------------------------------------------------------

class Prep(Suite):
    name = "schema_prep"

    def gen(self, rng, tier):
        for a in ATOMS + [{"ex": "pd.DataFrame"}, {"ex": "pl.DataFrame"}]:
            yield {"spec": a}
        for k in (0, 1, 2, 3):
            for c in itertools.combinations(SET_ATOMS, k):
                yield {"spec": {"set": list(c)}}
        for _ in range(300 if tier == "quick" else 5000):
            yield {"spec": rand_spec(rng)}

    def real(self, case):
        m = _mod()
        try:
            return spec_to_json(m._prep_schema_specification(mk_spec(case["spec"])))
        except Exception as e:  # noqa: BLE001
            return {"err": type(e).__name__}

    def real_canon(self, out, case=None):
        return out

    def oracle(self, case, real_out):
        if isinstance(real_out, dict) and "harness_exc" in real_out:
            return "harness: " + str(real_out)[:300]
        exp = ref_normal(case["spec"])
        if drop_none_members(real_out) != exp:
            return f"example-not-its-type: normal form {real_out}, declared classes are {exp}"
        return None

    def nontrivial(self, case, real_out):
        return "ex" in json.dumps(case["spec"])

    def shrink(self, case):
        for s2 in shrink_spec(case["spec"]):
            yield {"spec": s2}


# ------------------------------------------------------------------------------------------------
# suite: the driver's issubclass table is Python's
# ------------------------------------------------------------------------------------------------

class Sub(Suite):
    name = "schema_sub"

    def gen(self, rng, tier):
        for a in TYPE_NAMES:
            for b in TYPE_NAMES:
                yield {"a": a, "b": b}

    def real(self, case):
        return bool(issubclass(_types()[case["a"]], _types()[case["b"]]))

    def nontrivial(self, case, real_out):
        return case["a"] != case["b"]


SUITES = [Sub(), Prep(), Checks(), Calls()]
