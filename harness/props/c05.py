"""C05 — Every catalogued method behaves as documented on every backend that claims it."""
import json
import math
import os
import random

from .. import pipes
from ..core import Suite, VERIF
from . import c05_methods as M

PROPERTY = "C05"
LEAN_MODULES = ["DAVerif.Props.C05", "DAVerif.Props.C05agg"]
THEOREMS = ["DAVerif." + t for t in (
    "C05_pandas_scalar", "C05_sqlite_scalar_partial", "C05_backends_agree_documented",
    "C05_G_mod_fraction_necessary", "C05_G_mod_sign_necessary", "C05_S_int_necessary",
    "C05_silent_null_arithmetic_agree", "C05_silent_null_comparison_necessary", "C05_silent_null_connective_necessary",
    "C05_silent_round_tie_necessary", "C05_silent_concat_null_necessary", "C05_silent_power_null_necessary",
    "C05_pandas_agg", "C05_sqlite_agg_partial", "C05_S_group_necessary", "C05_all_null_item_documented",
    "C05_pandas_win_partial", "C05_sqlite_win", "C05_G_cumcount_necessary", "C05_silent_cumulative_null_necessary",
    "C05_shared_pandas_partial", "C05_shared_pandas_and_necessary", "C05_shared_sqlite_partial",
    "C05_shared_sqlite_mod_necessary",
    "C05_formatter_if_else", "C05_formatter_where", "C05_formatter_maximum", "C05_formatter_minimum",
    "C05_formatter_fmax", "C05_formatter_fmin", "C05_formatter_coalesce", "C05_formatter_is_null", "C05_formatter_is_in",
    "C05_formatter_mapv", "C05_formatter_comparisons", "C05_formatter_not", "C05_formatter_and", "C05_formatter_or",
    "C05_formatter_and3", "C05_formatter_or3", "C05_formatter_if_else_doc", "C05_formatter_maximum_doc",
    "C05_catalog_covered", "C05_provable_covered",
    # group aggregates, window functions and aggregate formatters (Props/C05agg.lean)
    "C05_max_pandas", "C05_min_pandas", "C05_max_sqlite", "C05_min_sqlite", "C05_max_documented_is_greatest", "C05_min_documented_is_least", "C05_max_min_no_item_agree", "C05_nunique_pandas", "C05_nunique_sqlite", "C05_nunique_documented_counts_distinct", "C05_median_pandas", "C05_median_sqlite", "C05_median_documented_is_middle", "C05_var_pandas", "C05_var_sqlite", "C05_any_value_sqlite", "C05_pandas_agg_full", "C05_sqlite_agg_full_partial", "C05_S_groupOp_necessary", "C05_agg_backends_agree", "C05_first_pandas", "C05_last_pandas", "C05_silent_first_last_missing_end", "C05_ffill_pandas", "C05_bfill_pandas", "C05_rank_pandas", "C05_silent_rank_tie", "C05_pandas_win_full_partial", "C05_sqlite_win_full_partial", "C05_formatter_count", "C05_formatter_size", "C05_formatter_mean", "C05_formatter_any", "C05_formatter_all", "C05_formatter_any_value", "C05_formatter_NoStr_necessary", "C05_formatter_all_skips_null", "C05_modelled_now_proved", "C05_provable_all_proved")]
# further theorems of these modules (supporting / intermediate statements of the property theorems above): audited
# for axioms on every run like the rest
THEOREMS += [
    "DAVerif.C05_ffill_documented_is_nearest_before",
    "DAVerif.C05_ffill_documented_missing_before",
    "DAVerif.C05_bfill_documented_is_nearest_after",
    "DAVerif.C05_formatter_count_doc",
    "DAVerif.C05_formatter_size_doc",
    "DAVerif.C05_formatter_mean_doc",
    "DAVerif.C05_formatter_any_doc",
    "DAVerif.C05_formatter_all_doc",
    "DAVerif.C05_formatter_any_value_doc",
]
ASSUMPTIONS = [
    "the docstrings of expr_rep.Term are read as transcribed in lean/DAVerif/Spec/DocSem.lean (each clause quotes its "
    "docstring; operators without docstring = the Python operator on values of one kind); `none` = the documentation names "
    "no value (outside the mathematical domain, ill-kinded, or silent); the same reading is written a second time in plain "
    "Python (harness/props/c05_methods.py ref_*) and the two are compared on every generated argument tuple",
    "null and NaN are one value; numbers of the provable classes are exact rationals (dyadic grid values, exact in float64); "
    "the comparison tolerance is 1e-8 relative",
    "pandas/numpy primitives, SQLite's expression evaluator and the Polars API are parameters: their behaviour is what the "
    "backend models ThetaX / ThetaSqlX (lean/DAVerif/Sem/ThetaC05.lean over the shared Theta / ThetaSql) say, validated by "
    "suite k1_methods on every run",
    "SQLite decides `/` and `%` by the storage class of the operands (INTEGER vs REAL), which a cell value does not carry: "
    "the SQL model takes it as a flag `ints`; the harness sets it from the column kinds",
    "PostgreSQL: no server in the sandbox; the PostgreSQL text is executed on SQLite 3.40 as a stand-in engine "
    "(pipes.run_pg_on_sqlite) and only sampled; its formatters are the same extracted ASTs as SQLite's and are covered by "
    "the C05_formatter_* theorems for both dialects",
    "the SQL formatter ASTs are extracted by harness/extract_tables.py (150-line SQL expression parser, self-check: the "
    "re-rendered AST equals the text `expr_to_sql` returned, modulo white space)",
    "requires the fixes fixes/C05-sql-trimstr-length.diff and fixes/C05-sql-all-ignores-null.diff in /repo (the models are "
    "written for the repaired formatters)",
]
NOT_PROVEN = [
    "class 3 methods, every backend - sampled against math / datetime only: arccos arccosh arcsin arcsinh arctan arctan2 "
    "arctanh cos cosh exp expm1 log log10 log1p sin sinh sqrt tanh, ** with a fractional exponent, as_str of numbers, std, "
    "base_Sunday date_diff datetime_to_date dayofmonth dayofweek dayofyear format_date format_datetime month parse_date "
    "parse_datetime quarter timestamp_diff weekofyear year; _uniform _count _ngroup (no documentation: only executed)",
    "every (method, PostgreSQL) and (method, Polars) pair: sampled (stand-in engine / real Polars), no Lean model; "
    "the PostgreSQL *formatter texts* of the null/logic operators are proved",
    "max min median var nunique any_value (both backends) and first last ffill bfill rank (Pandas; no SQL backend claims them) "
    "are proved in Props/C05agg.lean on exactly the domain where the documentation determines a value (rank: tie-free input; "
    "first/last: a non-missing end item); std, _count, _ngroup stay sampled",
]
LEVEL_TEXT = ("Kernel-checked: for every row-wise method of the null/logic/order and exact-arithmetic classes (41 operators, any "
              "argument list) the Pandas model computes the documented value wherever the documentation determines one "
              "(full strength); the SQLite model does so under the documented destination differences (integer `/`; "
              "groups without non-null value) and one finding guard (`%` mod remainder on non-negative integers only), each "
              "with a machine-checked witness that the excluded point is real; the same for the aggregates sum count size "
              "mean all any any_value and the windows cumsum cumprod cummax cummin _row_number shift; for arguments about "
              "which the docstrings are silent the places where the backends disagree are listed with witnesses (known "
              "findings). The SQL text of 21 null/logic formatters is regenerated from the code for SQLite and PostgreSQL, "
              "parsed, and proved equal to the SQL model under three-valued logic, so that exchanging or editing a formatter "
              "body fails the build. Every row of the regenerated method catalogue is proved, modelled-and-sampled or listed "
              "as class 3 (decide). Backend models and the Lean docstring transcription are tied to the real code / to an "
              "independent Python reference on a boundary grid of argument tuples on every run.")
LEVEL_NOTE = ("Trusted: Lean kernel; axioms propext/Classical.choice/Quot.sound; the reading of the docstrings (DocSem.lean, "
              "duplicated in Python); the backend models (validated by k1_methods); the translator extract_tables.py incl. its "
              "SQL expression parser; pandas/numpy, SQLite and Polars as engines; PostgreSQL only through a stand-in engine. "
              "Class 3 methods, PostgreSQL and Polars pairs are sampled, not proven (listed per pair in the evidence).")
RULE = ("one single-method pipeline (extend / partitioned extend / ordered window / grouped and un-grouped project) per "
        "catalogue row x variant x backend marked y (Polars always) x {with nulls, null-free}, evaluated on a boundary grid of "
        "argument tuples (0, +-1, +-0.5, +-2.5, 1.5, 3.5, 2^-20, 2^40, null; ints; '', 'a', 'ab', non-ASCII, bools; groups: "
        "all-null, singleton, duplicates, ties, empty input) - thorough adds random dyadic tuples and random groups; rows "
        "outside the documented mathematical domain are not generated; non-trivial = the backend returned a value per row")

PROVEN_SCALAR = ("+ * - / %/% // % mod remainder ** == != < <= > >= and or sign abs floor ceil round around maximum minimum "
                 "fmax fmin is_null is_nan is_inf is_bad if_else where coalesce is_in mapv concat trimstr as_int64 as_str").split()
PROVEN_PANDAS = set(PROVEN_SCALAR) | {"sum", "count", "size", "_size", "mean", "all", "any", "any_value", "cumsum", "cumprod",
                                       "cummax", "cummin", "_row_number", "shift", "cumcount"}
PROVEN_SQLITE = set(PROVEN_SCALAR) | {"sum", "count", "size", "_size", "mean", "all", "any", "cumsum", "cummax", "cummin",
                                       "_row_number", "shift"}

UNDEF, SILENT = M.UNDEF, M.SILENT
TOL = 1e-8

# ----------------------------------------------------------------------------------------------------------------------
# findings: every known deviation has a *decidable guard on the failing row* (not only on the method name), so that a
# different failure of the same method is still a new VIOLATION
# ----------------------------------------------------------------------------------------------------------------------

def _has_null(args):
    return any(a is None for a in args)


def _nums(args):
    return [M.num(a) for a in args]


def attribute(case, kind, idx, args, got, want, group=None):
    """-> known-finding id | None for one failing row (`args`: the row's argument Vals; `group`: the group's items)"""
    op, be = case["op"], case["backend"]
    label = case.get("label")
    if op in ("==", "!=", "<", "<=", ">", ">=", "is_in", "and", "or") or label == "not":
        # N1: pandas answers False/True (and Python and/or on objects), SQL and Polars answer NULL / Kleene
        if kind == "backends-differ" and _has_null(args):
            return "C05-null-operand-comparison-logic"
    if op in ("%", "mod", "remainder") and be in ("sqlite", "pg"):
        xs = _nums(args + [c[1] for c in (case.get("args") or []) if c[0] == "k"])
        xs = [x for x in xs if x not in (None, UNDEF)]
        if be == "sqlite" and any(x.denominator != 1 for x in xs):
            return "C05-sqlite-mod-casts-operands-to-integer"
        if len(xs) == 2 and xs[0] * xs[1] < 0:
            return "C05-sql-mod-sign-of-dividend"
        if be == "sqlite" and not case.get("ints") and len(xs) == 2:
            return "C05-sqlite-mod-casts-operands-to-integer"
    if op in ("round", "around") and kind == "backends-differ":
        return "C05-round-half-rule"
    if op == "concat" and kind == "backends-differ" and _has_null(args):
        return "C05-pandas-concat-null-as-text"
    if op == "**" and kind == "backends-differ" and _has_null(args):
        return "C05-pandas-power-null"
    if op in ("cumsum", "cummax", "cummin") and kind == "backends-differ" and group is not None and args and args[0] is None:
        return "C05-cumulative-window-null-row"
    if op == "all" and be in ("sqlite", "pg") and group is not None and _has_null(group):
        return "C05-sql-all-counts-null-as-false"
    if op == "cumcount" and be == "pandas":
        return "C05-pandas-cumcount-is-row-index"
    if be == "polars":
        if op in ("maximum", "minimum") and _has_null(args):
            return "C05-polars-maximum-ignores-null"
        if op == "nunique" and group is not None and _has_null(group):
            return "C05-polars-nunique-counts-null"
        if op in ("is_nan", "is_inf") and _has_null(args):
            return "C05-polars-isnan-null"
        if op == "first" and group is not None and group and group[0] is None:
            return "C05-polars-first-null"
        if op == "last" and group is not None and group and group[-1] is None:
            return "C05-polars-first-null"
    if be == "pg" and op == "is_nan" and _has_null(args):
        return "C05-postgres-isnan-null"
    return None


# ----------------------------------------------------------------------------------------------------------------------
# comparison of cells
# ----------------------------------------------------------------------------------------------------------------------

def same_cell(a, b, tol=TOL):
    if a is None or b is None:
        return a is None and b is None
    if isinstance(a, bool) or isinstance(b, bool):
        na, nb = pipes.val_num(a), pipes.val_num(b)
        return na is not None and nb is not None and na == nb
    na, nb = pipes.val_num(a), pipes.val_num(b)
    if na is not None and nb is not None:
        if math.isinf(na) or math.isinf(nb):
            return na == nb
        return abs(na - nb) <= tol * max(abs(na), abs(nb), 1.0)
    if na is not None or nb is not None:
        return False
    return a == b


def same_vals(xs, ys):
    return len(xs) == len(ys) and all(same_cell(x, y) for x, y in zip(xs, ys))


# ----------------------------------------------------------------------------------------------------------------------
# the reference value of every output position of a case
# ----------------------------------------------------------------------------------------------------------------------

def row_args(case, row):
    out = []
    for a in case["args"]:
        if a[0] == "c":
            out.append(("v", row[a[1]]))
        elif a[0] == "k":
            out.append(("v", a[1]))
        else:
            out.append((a[0], a[1]))
    return out


def group_values(case, items):
    spec = case["args"]
    if spec and spec[0][0] == "c":
        return list(items)
    if spec and spec[0][0] == "k":
        return [spec[0][1]] * len(items)
    return [{"i": 1}] * len(items)


def positions(case):
    """[(args-of-the-position (list of Vals), group items | None, reference)] in the order of the outcome's vals"""
    op, klass = case["op"], case["klass"]
    out = []
    if "rows" in case:
        for r in case["rows"]:
            if case.get("chain") is not None:
                inner = M.ref_scalar(op, [("v", r[0]), ("v", {"s": case["chain"]})])
                ref = inner if inner in (UNDEF, SILENT) else M.ref_scalar(op, [("v", inner), ("v", r[1])])
            elif case["kinds"] and case["kinds"][0] in ("date", "datetime") or op in ("parse_date", "parse_datetime"):
                ref = M.ref_date(op, row_args(case, r))
            elif klass == "3":
                ref = M.ref_float(op, row_args(case, r))
                if ref is UNDEF and op == "as_str":
                    ref = "__astr__"
            else:
                ref = M.ref_scalar(case.get("label") == "not" and "==" or op, row_args(case, r))
            out.append((list(r), None, ref))
        return out
    cls = case["cls"]
    groups = [g[1] for g in case["groups"]]
    if cls in ("p", "up"):
        gs = [[x for g in groups for x in g]] if case.get("ungrouped") else groups
        for g in gs:
            vs = group_values(case, g)
            ref = M.ref_agg(op, vs) if klass != "3" else UNDEF
            out.append(([], vs, ref))
        return out
    for g in groups:
        vs = group_values(case, g)
        for pos in range(len(g)):
            ref = M.ref_win(op, case.get("cargs") or [], vs, pos) if klass != "3" else UNDEF
            out.append(([vs[pos]], vs, ref))
    return out


def documented_difference(case, args, group, got, want):
    """C01's accepted destination conventions (scope, never reported)"""
    op, be = case["op"], case["backend"]
    if be in ("sqlite", "pg") and op in ("/", "%", "mod", "//") and case.get("ints"):
        return True            # integer `/` and `%` (`//` is rendered through `/`, `mod` through `%`)
    if op in ("sum", "count", "size", "_size", "any", "all", "nunique") and group is not None and not M._nn(group):
        # sum / count over a group without non-null values: 0 or null
        return got is None or (pipes.val_num(got) == 0) or same_cell(got, want)
    return False


class Methods(Suite):
    """single-method pipelines on the real code vs the backend models (correspondence) and vs the reference (oracle)"""
    name = "k1_methods"
    driver_suite = "k1_methods"
    corr = True
    backends = ("pandas", "sqlite")
    klasses = ("1", "2")

    def __init__(self):
        self.distribution = {}
        self._fail = {}
        self._pivot = {}
        self.pairs = {}          # (op, cls, backend) -> "proven+sampled" | "sampled" | "raises" | "skipped"

    # ---- generation ------------------------------------------------------------------------------------------------
    def wanted(self, v, backend, mark):
        if backend == "polars":
            return True
        return mark == "y"

    def gen(self, rng, tier):
        for row in M.catalogue():
            vs = M.variants_for(row["op"], row["expr"], row["cls"])
            if vs is None:
                continue
            for v in vs:
                for backend in self.backends:
                    if not self.wanted(v, backend, row.get(backend, "y")):
                        continue
                    modelled = backend in ("pandas", "sqlite") and v["klass"] in ("1", "2")
                    if modelled != self.corr:
                        continue
                    for nullfree in (False, True):
                        for case in self.cases_for(v, backend, nullfree, random.Random(rng.getrandbits(64)), tier):
                            key = f"{v['op']}[{v['cls']}]"
                            d = self.distribution.setdefault("cases_per_method", {})
                            d[key] = d.get(key, 0) + 1
                            yield case

    all_klasses = False

    def cases_for(self, v, backend, nullfree, rng, tier):
        g = v["grid"]
        if g in ("groups", "small_groups", "const_groups"):
            gl = M.group_layout(v, rng, tier, nullfree)
            if not gl:
                return
            c = M.make_case(v, backend, groups=gl)
            self._finish(c, v)
            yield c
            if v["cls"] in ("p", "up") and g != "const_groups":
                c2 = M.make_case(v, backend, groups=gl[:3])
                c2["ungrouped"] = True
                self._finish(c2, v)
                yield c2
                if not nullfree:
                    c3 = M.make_case(v, backend, groups=[])
                    c3["ungrouped"] = True
                    self._finish(c3, v)
                    yield c3
            return
        if g in ("dates", "date_pairs", "datetimes", "date_strs", "datetime_strs", "datetime_pairs"):
            pool = M.DATES if g in ("dates", "date_pairs", "date_strs") else M.DATETIMES
            if nullfree:
                return          # a missing date is outside the domain (the Pandas integer casts raise on NaT): one case
            if g.endswith("pairs"):
                rows = [(a, b) for a in pool[:6] for b in pool[:6]]
            else:
                rows = [(a,) for a in pool]
            c = M.make_case(v, backend, rows=rows)
            self._finish(c, v)
            yield c
            return
        rows = M.grid_rows(v, rng, tier, nullfree)
        c0 = M.make_case(v, backend, rows=rows)
        self._finish(c0, v)
        # only in-domain rows (the reference decides): a row outside the domain may make the whole query raise
        keep, infs = [], []
        for r, (args, _, ref) in zip(c0["rows"], positions(c0)):
            if ref is UNDEF:
                continue
            (infs if any(isinstance(x, dict) and "inf" in x for x in r) else keep).append(r)
        if keep:
            c = dict(c0, rows=keep)
            self._finish(c, v)
            yield c
        if infs:
            c = dict(c0, rows=infs, nomodel=True)
            yield c

    def _finish(self, c, v):
        if v.get("intargs"):
            ints = True
            for j, k in enumerate(c["kinds"]):
                if k == "int" and any(r[j] is None for r in c.get("rows", [])):
                    ints = False
            c["ints"] = ints
        return c

    # ---- the real code ---------------------------------------------------------------------------------------------
    def real(self, case):
        out = M.run_real(case)
        if case["backend"] != "pandas":
            sig = json.dumps({k: v for k, v in case.items() if k != "backend"}, sort_keys=True)
            if sig not in self._pivot:
                self._pivot[sig] = M.run_real(dict(case, backend="pandas"))
                if len(self._pivot) > 4000:
                    self._pivot.pop(next(iter(self._pivot)))
            pv = self._pivot[sig]
            out = dict(out, pivot=pv.get("vals"))
        return out

    # ---- correspondence --------------------------------------------------------------------------------------------
    def driver_case(self, case):
        c = {k: v for k, v in case.items() if k not in ("expr", "cols")}
        if not self.modelled(case):
            # no model for this case (class 3, +-inf arguments …): the driver gets an empty stub
            c = dict(c, rows=[], args=[])
            c.pop("groups", None)
            c.pop("chain", None)
            c["backend"] = "pandas"
        return c

    def modelled(self, case):
        return (self.corr and not case.get("nomodel") and case["backend"] in ("pandas", "sqlite")
                and case["klass"] in ("1", "2"))

    def agree(self, real_c, model_c):
        case = self._cur
        if not self.modelled(case):
            return True
        if not isinstance(model_c, dict) or "vals" not in model_c:
            return False
        # (a) the Lean transcription of the docstrings = the harness's plain-Python reference
        refs = [p[2] for p in positions(case)]
        docs = model_c.get("doc", [])
        if len(docs) != len(refs):
            return False
        for d, r in zip(docs, refs):
            undef = isinstance(d, dict) and d.get("undef")
            if r in (UNDEF, SILENT):
                if not undef:
                    return False
            elif undef or not same_cell(_canon_model(d, case), r):
                return False
        # (b) the backend model = the real backend
        if "vals" not in real_c:
            return False
        return same_vals([_canon_model(x, case) for x in model_c["vals"]], real_c["vals"])

    def real_canon(self, out, case=None):
        self._cur = case
        return out

    def model_canon(self, out, case=None):
        self._cur = case
        return out

    # ---- oracle ----------------------------------------------------------------------------------------------------
    def oracle(self, case, real_out):
        be = case["backend"]
        pair = (case["op"], case["cls"], be)
        status = "sampled"
        if self.modelled(case):
            proven = PROVEN_PANDAS if be == "pandas" else PROVEN_SQLITE
            status = "proven+sampled" if case["op"] in proven else "modelled+sampled (documented value not proved)"
        if "skip" in real_out:
            self.pairs.setdefault(pair, "skipped: " + real_out["skip"][:40])
            self.distribution.setdefault("pairs", {}).setdefault(f"{pair[0]}[{pair[1]}]@{pair[2]}", "stand-in cannot run: " + real_out["skip"][:40])
            return None
        if "err" in real_out:
            if be == "polars":
                self.pairs.setdefault(pair, "raises")
                self.distribution.setdefault("pairs", {}).setdefault(f"{pair[0]}[{pair[1]}]@{pair[2]}", "raises (accepted)")
                return None
            if case["op"] == "_uniform":
                return None
            return self._report(case, [("raises", -1, [], None, real_out["err"], None)])
        self.pairs[pair] = status
        self.distribution.setdefault("pairs", {})[f"{pair[0]}[{pair[1]}]@{pair[2]}"] = status
        if case["op"] in ("_uniform", "_ngroup", "_count"):
            return None            # no documentation (random numbers; undocumented numbering)
        vals = real_out["vals"]
        pos = positions(case)
        if len(vals) != len(pos):
            return self._report(case, [("row-count", -1, [], None, len(vals), len(pos))])
        pivot = real_out.get("pivot")
        fails = []
        for i, ((args, group, ref), got) in enumerate(zip(pos, vals)):
            if ref is UNDEF:
                continue
            if ref == "__astr__":
                # "Cast as string": the text must read back as the number
                x = M.num(args[0])
                if x is None:
                    continue
                try:
                    ok = isinstance(got, dict) and "s" in got and abs(float(got["s"]) - float(x)) <= TOL * max(1.0, abs(float(x)))
                except ValueError:
                    ok = False
                if not ok:
                    fails.append(("deviates-from-doc", i, args, group, got, {"s": str(float(x))}))
                continue
            if ref is SILENT:
                if be != "pandas" and pivot is not None and i < len(pivot) and not same_cell(got, pivot[i]):
                    if not documented_difference(case, args, group, got, pivot[i]):
                        fails.append(("backends-differ", i, args, group, got, pivot[i]))
                continue
            want = ref if not isinstance(ref, float) else M.outnum(ref)
            if not same_cell(got, want):
                if documented_difference(case, args, group, got, want):
                    continue
                fails.append(("deviates-from-doc", i, args, group, got, want))
        if not fails:
            return None
        return self._report(case, fails)

    def _report(self, case, fails):
        tagged = []
        for kind, i, args, group, got, want in fails:
            fid = attribute(case, kind, i, args, got, want, group) if kind in ("deviates-from-doc", "backends-differ") else None
            tagged.append((fid, kind, i, args, group, got, want))
        tagged.sort(key=lambda t: 0 if t[0] is None else 1)
        fid, kind, i, args, group, got, want = tagged[0]
        self._fail[_sig(case)] = fid
        return (f"{kind} {case['op']}@{case['backend']}: {case['expr']} [{case['cls']}] row {i} args={_show(args)}"
                + (f" group={_show(group)}" if group is not None else "") + f" got={_show([got])} want={_show([want])}")

    def finding(self, case, real_out, why):
        return self._fail.get(_sig(case))

    def nontrivial(self, case, real_out):
        return "vals" in real_out and len(real_out["vals"]) > 0

    # ---- shrinking: fewer rows / groups --------------------------------------------------------------------------
    def shrink(self, case):
        key = "rows" if "rows" in case else "groups"
        items = case[key]
        if len(items) <= 1:
            if key == "groups" and items and len(items[0][1]) > 1:
                k, vals = items[0]
                for j in range(len(vals)):
                    yield dict(case, groups=[[k, vals[:j] + vals[j + 1:]]])
            return
        half = len(items) // 2
        yield dict(case, **{key: items[:half]})
        yield dict(case, **{key: items[half:]})
        if len(items) <= 8:
            for j in range(len(items)):
                yield dict(case, **{key: items[:j] + items[j + 1:]})

    def corpus(self):
        d = os.path.join(VERIF, "corpus", "C05")
        out = []
        if os.path.isdir(d):
            for f in sorted(os.listdir(d)):
                if f.endswith(".json"):
                    obj = json.load(open(os.path.join(d, f)))
                    if obj.get("suite") == self.name:
                        out.append(obj["case"])
        return out


class Sampled(Methods):
    """the pairs that have no Lean model: class 3 everywhere, every class on the PostgreSQL stand-in and on Polars"""
    name = "k1_methods_sampled"
    corr = False
    backends = ("pandas", "sqlite", "pg", "polars")
    all_klasses = True

    def wanted(self, v, backend, mark):
        return backend == "polars" or mark == "y"


def _drv_val(x):
    return x


def _canon_model(x, case):
    """driver Val -> the harness's Val reading (bools for boolean results: the SQL model answers 0/1-free bools already)"""
    return M._canon_cell(x, case["rkind"])


def _sig(case):
    return json.dumps(case, sort_keys=True)[:6000]


def _show(vals):
    if vals is None:
        return "-"
    out = []
    for v in vals:
        if v is None:
            out.append("null")
        elif isinstance(v, (bool, int, float, str)):
            out.append(repr(v))
        elif "s" in v:
            out.append(repr(v["s"]))
        elif "inf" in v:
            out.append("inf" if v["inf"] > 0 else "-inf")
        else:
            n = pipes.val_num(v)
            out.append("%g" % n)
    return "(" + ", ".join(out) + ")"


SUITES = [Methods(), Sampled()]


def extra_obligations(check):
    """S0-level obligations of C05: every row of the REAL catalogue has variants here; the formatter extraction covered
    every operator of its list (an operator outside the parser's fragment is reported, its theorem then does not build)"""
    broken = []
    for row in M.catalogue():
        if M.variants_for(row["op"], row["expr"], row["cls"]) is None:
            broken.append(f"catalogue row not covered by harness/props/c05_methods.py: {row['op']} {row['expr']!r} [{row['cls']}]")
    gen = check.ev["coverage"].get("tables_regenerated") or {}
    for m in gen.get("formatters_outside_fragment", []) or []:
        broken.append("SQL formatter outside the parsed fragment: " + m)
    proven_scalar = ("+ * - / %/% // % mod remainder ** == != < <= > >= and or sign abs floor ceil round around maximum minimum "
                     "fmax fmin is_null is_nan is_inf is_bad if_else where coalesce is_in mapv concat trimstr as_int64").split()
    check.ev["coverage"]["proven_pairs"] = {
        "pandas": proven_scalar + ["sum", "count", "size", "_size", "mean", "all", "any", "any_value", "cumsum", "cumprod", "cummax",
                                   "cummin", "_row_number", "shift", "cumcount (finding)"],
        "sqlite": proven_scalar + ["sum", "count", "size", "_size", "mean", "all", "any", "cumsum", "cummax", "cummin",
                                   "_row_number", "shift"],
        "sqlite+postgres formatter text": "if_else where maximum minimum fmax fmin coalesce is_null is_in mapv == != < <= > >= "
                                          "and or not (2- and 3-ary)".split(),
        "modelled, sampled, documented value not proved": "max min median var nunique rank ffill bfill first last".split(),
        "sampled only": "class 3 methods on every backend; every PostgreSQL (stand-in) and Polars pair - see "
                        "suites.*.input_distribution.pairs for the status of each (method, backend) pair",
    }
    return broken
