"""C13 — Expression text is parsed with Python's precedence and meaning (and the expression-level part of C12:
printing a parsed expression and parsing it again yields an equal tree)."""
import json
import os

from .. import exprlib as L
from .. import termjson
from ..core import Suite, Driver, VERIF, DRIVER

PROPERTY = "C13"
LEAN_MODULES = ["DAVerif.Props.C13", "DAVerif.Props.C13wf", "DAVerif.Proofs.ExprWalkWfFloat"]
THEOREMS = [
    # the walker only returns well-formed terms, so the round trip holds for every accepted text (Props/C13wf.lean)
    "DAVerif.Expr.C13_parse_gram", "DAVerif.Expr.C13_walk_wf", "DAVerif.Expr.C13_generated_tables_canon",
    "DAVerif.Expr.C13_walk_wf_text", "DAVerif.Expr.C13_roundtrip_text", "DAVerif.Expr.C13_roundtrip_text_generated",
    "DAVerif.Expr.C13_roundtrip_text_top", "DAVerif.Expr.C13_roundtrip_names", "DAVerif.Expr.C13_roundtrip_idents",
    "DAVerif.Expr.C13_walk_wf_dunder_necessary", "DAVerif.Expr.C13_callee_guard_necessary_names",
    "DAVerif.Expr.C13_walk_wf_float_necessary",
    "DAVerif.Expr.C13_walk_meaning",
    "DAVerif.Expr.C13_generated_tables_sane",
    "DAVerif.Expr.C13_print_parse",
    "DAVerif.Expr.C13_print_parse_top",
    "DAVerif.Expr.C13_generated_negfolds",
    "DAVerif.Expr.C13_parse_print_idem",
    "DAVerif.Expr.C13_old_chain_walk_not_python",
    "DAVerif.Expr.C13_dunder_guard_necessary",
    "DAVerif.Expr.C13_callee_guard_necessary",
]
# further theorems of these modules (supporting / intermediate statements of the property theorems above): audited
# for axioms on every run like the rest
THEOREMS += [
    "DAVerif.Expr.C13_walk_names",
    "DAVerif.Expr.C13_generated_tableNames_ident",
    "DAVerif.Expr.C13_walk_wf_unguarded_false",
]
ASSUMPTIONS = [
    "lark's LALR parser and lexer implement python3_lark.grammar (tied on every run: lark's tree for each generated "
    "text = the model parser's tree on lark's tokens, and = CPython's ast under the standard reading)",
    "each operator symbol is interpreted by the same function in the Python reading and in the DSL reading (Θ); the "
    "backend evaluates a k-ary `+ * and or` as the left fold of the binary operator, unary plus as the identity, "
    "unary minus of a numeric constant as the negated constant and `x == False` as `not x` (the four laws `PyLaws`)",
    "number and string literals are spelled within the modelled lexical scope (decimal ints, exactly representable "
    "floats, ASCII strings with the escapes \\\\ \\' \\\" \\n \\t \\r); column and method names are identifiers that are "
    "not keywords",
    "/repo carries fixes/c13-comparison-chain.diff and fixes/c13-single-element-list.diff",
]
NOT_PROVEN = [
    "the round trip is proved for every token list the parser model accepts (C13_roundtrip_text_generated) under two decidable guards: "
    "no dunder method name is called (known finding, necessity proved) and every float token is within the 400 digits the "
    "model's repr(float) carries (a limit of the MODEL, proved necessary of it: the real code re-reads such a token as 0.0 both "
    "times); the callee guard (`(-x)(y)`, known finding) is needed only for the NAME-token statements",
    "text -> token list (lark's lexer) and the spelling of literals (repr / int() / float() / literal_eval) are "
    "compared on samples, not proven, except the int round trip",
    "values of the arithmetic itself (numpy vs CPython) are sampled by the oracle on scalar rows; the theorems are "
    "about tree shape under one shared interpretation of the operator symbols",
]
LEVEL_TEXT = ("Kernel-checked for every lark tree and every row: the term the walker builds evaluates to what the "
              "standard Python reading of the same tree evaluates to (left-associative levels, right-associative **, "
              "unary minus looser than ** and tighter than *, chained comparisons as conjunctions, and/or/not), under "
              "any interpretation of the operator symbols satisfying four stated laws; and for every well-formed term "
              "(a decidable predicate that every term returned by the real parser is checked to satisfy on each run), "
              "printing it and parsing the printed tokens with the model of the grammar and walking again gives back "
              "exactly the same term. The model (grammar fragment, walker, builder methods, printer) is tied to the "
              "code by four correspondence suites and to CPython by an ast differential.")
LEVEL_NOTE = ("Trusted: Lean kernel; axioms propext/Classical.choice/Quot.sound; the hand-written model of "
              "parse_by_lark.py / expr_rep.py and of the grammar fragment (validated by correspondence on every run); "
              "lark; the regenerated builder table (harness/extract_tables.py).")
RULE = ("grammar-directed expression texts over the accepted fragment (names, numbers, strings, constants, all operator "
        "levels, unary operators, powers, method and function calls, list/tuple/set/dict literals; 15% with one "
        "token-level fault), thorough: plus every token sequence of length <= 4 over a 20-token vocabulary and <= 5 "
        "over 9 tokens; type-directed arithmetic/comparison/boolean texts evaluated on 10 scalar rows for the meaning "
        "oracle; distinct by canonical JSON; non-trivial = at least 3 tokens and at least one operator or call")


def _data_def(cols):
    import data_algebra.expr_rep as er
    return {c: er.ColumnReference(c) for c in cols}


def real_parse(text, cols):
    from data_algebra.parse_by_lark import parse_by_lark
    return parse_by_lark(text, data_def=_data_def(cols))


def parse_outcome(text, cols):
    try:
        t = real_parse(text, cols)
    except Exception as e:  # error -> class name only
        n = type(e).__name__
        if n.startswith("Unexpected") or n in ("LarkError", "VisitError"):
            n = "ParseError"
        return {"err": n}
    try:
        return {"ok": termjson.term_to_json(t)}
    except termjson.NotEncodable as e:
        return {"err": "NotEncodable"}


KEYWORDS = {"and", "or", "not", "in", "is", "if", "else", "lambda", "None", "True", "False", "for", "await", "async",
            "yield", "def", "class", "return", "pass", "del", "import", "from", "as", "with", "while", "try",
            "except", "finally", "raise", "global", "nonlocal", "assert", "break", "continue", "elif"}


def keyword_named(t):
    """lark's contextual lexer reads a keyword as a NAME where only a name can stand (`and(x)`, `x.not()`): such
    names are outside the lexical scope (names are identifiers that are not keywords)"""
    if "c" in t:
        return t["c"] in KEYWORDS
    if "op" in t:
        return (not t["inline"] and t["op"] in KEYWORDS) or any(keyword_named(a) for a in t["args"])
    return False


def roundtrip_oracle(text, cols):
    """print -> parse round trip on the real code; None or a description"""
    try:
        t = real_parse(text, cols)
    except Exception:
        return None
    try:
        if keyword_named(termjson.term_to_json(t)):
            return None  # a keyword read as a name by lark's contextual lexer (`+ not ( )`): outside the lexical scope
    except termjson.NotEncodable:
        pass
    p = str(t)
    try:
        t2 = real_parse(p, cols)
    except Exception as e:
        return f"roundtrip: {text!r} parses, prints as {p!r}, which does not parse ({type(e).__name__})"
    if not t2.is_equal(t) or not t.is_equal(t2):
        return f"roundtrip: {text!r} prints as {p!r}, which parses to a tree that is not is_equal"
    try:
        if termjson.term_to_json(t2) != termjson.term_to_json(t):
            return f"roundtrip: {text!r} prints as {p!r}, which parses to a different tree ({str(t2)!r})"
    except termjson.NotEncodable:
        pass
    if str(t2) != p:
        return f"roundtrip: {text!r} prints as {p!r}, whose parse prints as {str(t2)!r}"
    return None


def n_tokens(text):
    toks = L.lex_basic(text)
    return len(toks) if toks is not None else 0


def _texts(rng, tier, n_quick, n_thorough, stats):
    g = L.TextGen(rng)
    n = n_quick if tier == "quick" else n_thorough
    for i in range(n):
        t = g.text()
        if rng.random() < 0.15:
            t = L.mutate_text(rng, t)
            stats["mutated"] = stats.get("mutated", 0) + 1
        yield t
    for k, v in g.stats.items():
        stats[k] = stats.get(k, 0) + v


VOCAB_WIDE = ["x", "1", "+", "-", "*", "**", "(", ")", ",", ".", "f", "not", "and", "or", "<", "==", "[", "]", "1.5", "'a'"]
VOCAB_DEEP = ["x", "2", "+", "-", "*", "**", "(", ")", "<"]


def exhaustive_texts(tier):
    if tier == "quick":
        yield from L.all_token_texts(VOCAB_WIDE, 3)
    else:
        yield from L.all_token_texts(VOCAB_WIDE, 4)
        seen_len = 4
        for t in L.all_token_texts(VOCAB_DEEP, 5):
            if t.count(" ") + 1 > seen_len:
                yield t


def shrink_text(text):
    toks = text.split(" ")
    for i in range(len(toks)):
        yield " ".join(toks[:i] + toks[i + 1:])
    for i in range(len(toks)):
        for j in range(i + 2, min(i + 6, len(toks) + 1)):
            yield " ".join(toks[:i] + toks[j:])


def _corpus(name):
    p = os.path.join(VERIF, "corpus", "C13", name)
    if os.path.exists(p):
        return json.load(open(p))["cases"]
    return []


def drop_unmodelled(suite_name, cases, stats):
    """cases on which the model declares itself silent (`Unmodelled`, see Expr/Walk.lean) are outside the
    correspondence; they are counted, not compared"""
    if not cases or not os.path.exists(DRIVER):
        return cases
    outs = Driver().run(suite_name, cases)
    keep = []
    for c, o in zip(cases, outs):
        if o and "out" in o and isinstance(o["out"], dict) and o["out"].get("err") == "Unmodelled":
            stats["outside_model_dropped"] = stats.get("outside_model_dropped", 0) + 1
        else:
            keep.append(c)
    return keep


# ------------------------------------------------------------------------------------------------
class ExprWalk(Suite):
    """lark's tree for a text -> model Walk = the term parse_by_lark returns (or the error class)"""
    name = "expr_walk"

    def __init__(self):
        self.distribution = {}

    def make_case(self, text):
        tree, err = L.lark_parse(text)
        if tree is None:
            return None
        return {"text": text, "cols": L.COLS, "tree": L.tree_to_json(tree)}

    def corpus(self):
        return [c for c in (self.make_case(t) for t in _corpus("witnesses.json") + _corpus("dunder_bitwise.json") + _corpus("unary_callee.json")) if c]

    def finding(self, case, real_out, why):
        # guard NoDunderCall: the text calls a dunder method of Term by name
        import re
        if why.startswith("roundtrip") and re.search(r"\.\s*__(and|or|xor|rand|ror|rxor)__\s*\(", case["text"]):
            return "C13-dunder-bitwise-method-print"
        # guard CalleeIsName: a call whose callee is a parenthesised unary expression, `(-x)(y)`: the walker takes the
        # operator token as the function name
        def factor_callee(t):
            if not isinstance(t, dict) or "t" not in t:
                return False
            if t["t"] == "funccall" and t["ch"] and isinstance(t["ch"][0], dict) and t["ch"][0].get("t") == "factor":
                return True
            return any(factor_callee(c) for c in t["ch"])
        if why.startswith("roundtrip") and factor_callee(case["tree"]):
            return "C13-call-of-unary-expression"
        return None

    def gen(self, rng, tier):
        st = self.distribution
        cases = []
        for t in _texts(rng, tier, 1600, 15000, st):
            c = self.make_case(t)
            if c is None:
                st["lark_rejects"] = st.get("lark_rejects", 0) + 1
                continue
            cases.append(c)
        for t in exhaustive_texts(tier):
            c = self.make_case(t)
            if c is not None:
                st["exhaustive_accepted"] = st.get("exhaustive_accepted", 0) + 1
                cases.append(c)
        return drop_unmodelled(self.name, cases, st)

    def real(self, case):
        out = parse_outcome(case["text"], case["cols"])
        k = "ok" if "ok" in out else out["err"]
        self.distribution["outcome:" + k] = self.distribution.get("outcome:" + k, 0) + 1
        return out

    def oracle(self, case, real_out):
        if "harness_exc" in real_out:
            return "harness: " + real_out["harness_exc"]
        if "ok" not in real_out:
            return None
        return roundtrip_oracle(case["text"], case["cols"])

    def nontrivial(self, case, real_out):
        return n_tokens(case["text"]) >= 3 and ("ok" in real_out)

    def shrink(self, case):
        for t in shrink_text(case["text"]):
            c = self.make_case(t)
            if c:
                yield c


# ------------------------------------------------------------------------------------------------
class ExprParse(Suite):
    """lark's tokens -> model Parse = lark's tree; oracle: lark's tree = CPython's ast under the standard reading"""
    name = "expr_parse"

    def __init__(self):
        self.distribution = {}

    def make_case(self, text):
        toks = L.lex_basic(text)
        if toks is None:
            self.distribution["does_not_lex"] = self.distribution.get("does_not_lex", 0) + 1
            return None
        tree, err = L.lark_parse(text)
        if tree is not None:
            basic = [(t["k"], t["s"]) for t in toks if L.norm_kind(t["k"]) != "OP"]
            seen = [(k, s) for k, s in L.tree_tokens(tree) if L.norm_kind(k) != "OP"]
            if basic != seen:
                # lark's contextual lexer read a keyword as a NAME (`x.and`, `pass`): the token list is not the text's
                self.distribution["context_lexed"] = self.distribution.get("context_lexed", 0) + 1
                return None
        return {"text": text, "toks": toks}

    def corpus(self):
        return [c for c in (self.make_case(t) for t in _corpus("witnesses.json")) if c]

    def gen(self, rng, tier):
        st = self.distribution
        for t in _texts(rng, tier, 1600, 15000, st):
            c = self.make_case(t)
            if c:
                yield c
        for t in exhaustive_texts(tier):
            c = self.make_case(t)
            if c:
                yield c

    def real(self, case):
        if not L.in_fragment(case["toks"]):
            out = {"err": "unsupported"}
        else:
            tree, err = L.lark_parse(case["text"])
            out = {"ok": L.tree_to_json(tree, normalise=True)} if tree is not None else {"err": "syntax"}
        k = "ok" if "ok" in out else out["err"]
        self.distribution["outcome:" + k] = self.distribution.get("outcome:" + k, 0) + 1
        return out

    def oracle(self, case, real_out):
        if "harness_exc" in real_out:
            return "harness: " + real_out["harness_exc"]
        tree, err = L.lark_parse(case["text"])
        if tree is None:
            return None
        why = L.python_tie(case["text"], tree)
        return ("python-tie: " + case["text"] + ": " + why) if why else None

    def nontrivial(self, case, real_out):
        return len(case["toks"]) >= 3 and "ok" in real_out

    def shrink(self, case):
        for t in shrink_text(case["text"]):
            c = self.make_case(t)
            if c:
                yield c


# ------------------------------------------------------------------------------------------------
INLINE_OPS = ["+", "-", "*", "/", "//", "%", "**", "==", "!=", "<", "<=", ">", ">=", "and", "or", "%/%"]
NAMED_OPS = ["sum", "abs", "fmax", "maximum", "if_else", "is_in", "mapv", "coalesce", "shift", "round", "_row_number",
             "is_null", "concat", "around", "max", "where"]
LIT_POOL = [None, True, False, {"i": 0}, {"i": 1}, {"i": 7}, {"i": -1}, {"i": -12}, {"f": [3, 2]}, {"f": [2, 1]},
            {"f": [-1, 2]}, {"f": [1, 8]}, {"f": [-5, 1]}, {"f": [1000, 1]}, {"s": "a"}, {"s": ""}, {"s": "it's"},
            {"s": "say \"hi\""}, {"s": "both ' and \""}, {"s": "a\\b"}, {"s": "line\nbreak\ttab"}, {"s": "x y"}]


def rand_term(rng, d):
    """terms built through the constructors directly (beyond what the parser produces)"""
    k = rng.random()
    if d <= 0 or k < 0.3:
        k2 = rng.random()
        if k2 < 0.45:
            return {"c": rng.choice(L.COLS)}
        if k2 < 0.85:
            return {"v": rng.choice(LIT_POOL)}
        if k2 < 0.93:
            return {"list": [rng.choice(LIT_POOL[1:16]) for _ in range(rng.randint(0, 3))]}
        keys = rng.sample([{"i": 1}, {"i": 2}, {"s": "a"}, {"s": "b"}, {"i": -3}, {"f": [5, 2]}], rng.randint(0, 3))
        return {"dict": [[k_, rng.choice(LIT_POOL)] for k_ in keys]}
    if k < 0.7:
        n = rng.choice([1, 2, 2, 2, 3])
        return {"op": rng.choice(INLINE_OPS if n > 1 else ["-", "-", "+", "not"][:3]),
                "args": [rand_term(rng, d - 1) for _ in range(n)], "inline": True, "method": False}
    n = rng.choice([0, 1, 1, 2, 2, 3])
    method = rng.random() < 0.6 and n > 0
    return {"op": rng.choice(NAMED_OPS), "args": [rand_term(rng, d - 1) for _ in range(n)], "inline": False,
            "method": method}


class ExprPrint(Suite):
    """Term -> model Print (text and tokens) = str(term) and lark's lexing of it"""
    name = "expr_print"

    def __init__(self):
        self.distribution = {}

    def gen(self, rng, tier):
        st = self.distribution
        n = 1000 if tier == "quick" else 10000
        for t in _texts(rng, tier, n, n, st):
            out = parse_outcome(t, L.COLS)
            if "ok" in out and not keyword_named(out["ok"]):
                st["parsed_terms"] = st.get("parsed_terms", 0) + 1
                yield {"term": out["ok"], "parsed": True}
        for _ in range(n // 2):
            st["constructed_terms"] = st.get("constructed_terms", 0) + 1
            yield {"term": rand_term(rng, rng.choice([1, 2, 2, 3])), "parsed": False}

    def real(self, case):
        try:
            t = termjson.term_from_json(case["term"])
        except Exception as e:
            return {"err": type(e).__name__}
        text = str(t)
        toks = L.lex_basic(text)
        return {"text": text,
                "toks": None if toks is None else [[L.norm_kind(k["k"]), k["s"]] for k in toks]}

    def nontrivial(self, case, real_out):
        return "op" in case["term"] and "text" in real_out

    def shrink(self, case):
        t = case["term"]
        if "op" in t:
            for a in t["args"]:
                yield {"term": a, "parsed": case.get("parsed", False)}


# ------------------------------------------------------------------------------------------------
class ExprRoundTrip(Suite):
    """Term -> model walk(parse(printToks t)) = parse_by_lark(str(t)); oracle: for parsed terms the result is the term"""
    name = "expr_rt"

    def __init__(self):
        self.distribution = {}

    def corpus(self):
        out = []
        for t in _corpus("witnesses.json"):
            o = parse_outcome(t, L.COLS)
            if "ok" in o:
                out.append({"term": o["ok"], "cols": L.COLS, "parsed": True, "text": t})
        return out

    def gen(self, rng, tier):
        st = self.distribution
        n = 1000 if tier == "quick" else 10000
        cases = []
        for t in _texts(rng, tier, n, n, st):
            out = parse_outcome(t, L.COLS)
            if "ok" in out and not keyword_named(out["ok"]):
                cases.append({"term": out["ok"], "cols": L.COLS, "parsed": True, "text": t})
        for _ in range(n // 3):
            cases.append({"term": rand_term(rng, rng.choice([1, 2, 3])), "cols": L.COLS, "parsed": False})
        return drop_unmodelled(self.name, cases, st)

    def real(self, case):
        try:
            t = termjson.term_from_json(case["term"])
        except Exception as e:
            return {"err": "construct-" + type(e).__name__}
        out = parse_outcome(str(t), case["cols"])
        if "err" in out and out["err"] == "ParseError":
            toks = L.lex_basic(str(t))
            out = {"err": "parse-unsupported" if (toks is not None and not L.in_fragment(toks)) else "parse-syntax"}
        return out

    def oracle(self, case, real_out):
        if "harness_exc" in real_out:
            return "harness: " + real_out["harness_exc"]
        if not case.get("parsed"):
            return None
        if real_out != {"ok": case["term"]}:
            return (f"roundtrip: the term parsed from {case.get('text')!r} prints as "
                    f"{str(termjson.term_from_json(case['term']))!r}, which parses to {json.dumps(real_out)[:300]}")
        return None

    def nontrivial(self, case, real_out):
        return "op" in case["term"] and "ok" in real_out

    def shrink(self, case):
        t = case["term"]
        if "op" in t:
            for a in t["args"]:
                if "op" in a or "v" in a or "c" in a:
                    yield dict(case, term=a)


# ------------------------------------------------------------------------------------------------
class ExprCanon(Suite):
    """the hypotheses / conclusions of C13_print_parse evaluated by the driver on every term the real parser returns:
    the term is well-formed, the model's direct token printer is the printer, the tokens parse to `cst t`, `cst t`
    walks back to the term"""
    name = "expr_canon"

    def __init__(self):
        self.distribution = {}

    def corpus(self):
        out = []
        for t in _corpus("witnesses.json"):
            o = parse_outcome(t, L.COLS)
            if "ok" in o:
                out.append({"term": o["ok"], "cols": L.COLS, "text": t})
        return out

    def gen(self, rng, tier):
        st = self.distribution
        n = 1000 if tier == "quick" else 10000
        for t in _texts(rng, tier, n, n, st):
            out = parse_outcome(t, L.COLS)
            if "ok" in out and ".__" not in t and not keyword_named(out["ok"]):
                yield {"term": out["ok"], "cols": L.COLS, "text": t}

    def real(self, case):
        # the case was produced by the real parser: the claim is that all four hold
        o = parse_outcome(case["text"], case["cols"])
        same = o == {"ok": case["term"]}
        return {"wf": same, "tk": True, "parse": True, "walk": True}

    def nontrivial(self, case, real_out):
        return "op" in case["term"]

    def shrink(self, case):
        for t in shrink_text(case["text"]):
            o = parse_outcome(t, case["cols"])
            if "ok" in o:
                yield {"term": o["ok"], "cols": case["cols"], "text": t}


# ------------------------------------------------------------------------------------------------
class ExprMeaning(Suite):
    """oracle only: the parsed expression evaluated by the Pandas executor on scalar rows = CPython's eval of the text"""
    name = "expr_meaning"
    corr = False

    def __init__(self):
        self.distribution = {}

    def corpus(self):
        return [{"text": t} for t in _corpus("meaning_witnesses.json")]

    def gen(self, rng, tier):
        g = L.EvalGen(rng)
        n = 1800 if tier == "quick" else 20000
        for _ in range(n):
            yield {"text": g.text()}
        self.distribution.update(g.stats)

    def real(self, case):
        py = L.python_values(case["text"])
        da = L.pandas_values([case["text"]])[0]
        if isinstance(da, tuple):
            da = {"err": da[0] + ":" + da[1]}
        return {"py": py, "da": da}

    def oracle(self, case, real_out):
        if "harness_exc" in real_out:
            return "harness: " + real_out["harness_exc"]
        py, da = real_out["py"], real_out["da"]
        if all(v is None for v in py):
            return None
        if isinstance(da, dict):
            kind = "rejects" if da["err"].startswith("parse-err") else "eval-error"
            return f"{kind}: {case['text']!r}: {da['err']} where Python evaluates to {py}"
        for i, (a, b) in enumerate(zip(py, da)):
            if not L.same_value(a, b):
                row = {k: v[i] for k, v in L.EVAL_ROWS.items()}
                return f"meaning: {case['text']!r} at {row}: Python {a!r}, parsed expression {b!r}"
        return None

    def nontrivial(self, case, real_out):
        return n_tokens(case["text"]) >= 3 and isinstance(real_out.get("da"), list) \
            and any(v is not None for v in real_out["py"])

    def shrink(self, case):
        for t in shrink_text(case["text"]):
            try:
                compile(t.strip(), "<expr>", "eval")
            except SyntaxError:
                continue
            yield {"text": t}


SUITES = [ExprWalk(), ExprParse(), ExprPrint(), ExprRoundTrip(), ExprCanon(), ExprMeaning()]
