"""C21 — Solution helpers compute what their documentation promises.

Suites
  k2_solutions     the node tree (and for replicate_rows_query the count frame) the REAL helper returns for random
                   parameters (valid and single-fault) = the tree the Lean model builds through its builders
  k4_solutions     the real helper's pipeline executed on Pandas = the model's `sem` (Pandas configuration);
                   oracle: independent plain-Python references on the Pandas AND the SQLite result
  k5_solutions     the real helper's pipeline as SQLite SQL executed on SQLite = the model's `semSql (toNearSql sqlite)`
  hlog_table       exhaustive discharge of the hypothesis `hlog` of C21_replicate_partial: the engines'
                   ceil(log(c)/log(2)) (numpy at build time, Pandas and SQLite at evaluation time) = exact ceil(log2 c)
                   for EVERY c in 1..N  (a complete check of a finite table, N printed in the evidence)
  oracle_ties      oracle only: last_observed_carried_forward on inputs with ties in order_by (the result depends on the
                   helper's tie-breaking row number, any order refining order_by is accepted)
"""
import itertools
import math
import random
import warnings

from .. import modeltree as mt
from .. import pipes
from ..core import Suite
from ..suites_ops import K4Sem

PROPERTY = "C21"
LEAN_MODULES = ["DAVerif.Props.C21", "DAVerif.Props.C21sql"]
THEOREMS = ["DAVerif." + t for t in (
    "C21_rank_to_average_tree", "C21_rank_to_average", "C21_rank_to_average_view", "C21_rank_mean_closed_form",
    "C21_locf_tree", "C21_locf", "C21_locf_value_reading",
    "C21_multi_column_map_tree", "C21_multi_column_map",
    "C21_replicate_tree", "C21_replicate_partial", "C21_replicate_interp_instances",
    # the SQLite side (Props/C21sql.lean): the generated query, under the modelled engine, returns what the helper promises
    "C21_sql_interp_instances", "C21_rank_to_average_to_sql_total", "C21_rank_to_average_sql", "C21_rank_to_average_sqlite",
    "C21_rank_to_average_sqlite_pandas_order", "C21_locf_sql_partial", "C21_locf_sqlite_partial",
    "C21_locf_sqlite_pandas_order_partial", "C21_replicate_sql_partial", "C21_replicate_sqlite_partial",
    "C21_multi_column_map_outside_sql", "C21_rank_order_null_necessary", "C21_locf_partition_null_necessary",
    "C21_locf_order_null_necessary",
)]
# further theorems of these modules (supporting / intermediate statements of the property theorems above): audited
# for axioms on every run like the rest
THEOREMS += [
    "DAVerif.C21_rank_to_average_interp",
    "DAVerif.C21_rank_to_average_cmp",
    "DAVerif.C21_rank_to_average_sql_pandas_order",
    "DAVerif.C21_locf_interp",
    "DAVerif.C21_locf_cmp",
    "DAVerif.C21_locf_sql_pandas_order_partial",
]
ASSUMPTIONS = [
    "the models of the four helpers (lean/DAVerif/Solutions/*.lean) are the helpers of /repo/data_algebra/solutions.py: "
    "tied on every run by k2_solutions (node tree incl. expression trees, record-map repr and the replicate count frame "
    "of the REAL helper = the tree the model builds through the shared builders, for random valid and single-fault "
    "parameters; error classes compared)",
    "the shared executor model `sem` + `Theta.concrete` is the Pandas executor, `semSql (toNearSql sqlite)` + "
    "`ThetaSql.concrete` is the generated SQL on SQLite: tied for the helper pipelines by k4_solutions / k5_solutions",
    "record transforms of the two record maps def_multi_column_map builds (Solutions/MultiColumnMap.lean: "
    "unpivotTable / pivotTable, transcribed from PandasModelBase.rowrecs_to_blocks / blocks_to_rowrecs): tied by "
    "k4_solutions (the model's result of every def_multi_column_map case is computed with them)",
    "hypothesis hlog of C21_replicate_partial (the engines' floating ceil(log(c)/log(2)) = exact ceil(log2 c)): discharged "
    "by suite hlog_table, a COMPLETE evaluation on numpy (build time), Pandas and SQLite for every c in 1..N "
    "(N = 4096 quick, 2^20 thorough; printed under coverage.suites.hlog_table.input_distribution); the theorem is "
    "therefore shown for max_count <= N",
    "hypotheses PowerSem / LtSem of C21_replicate_partial (the engine evaluates '\"p\" %+% (…).ceil().as_int64()' to "
    "'p' + str(powerOf c), and '<' on numbers): instances for the executable interpretations are proved "
    "(C21_replicate_interp_instances); for the real engines this is what hlog_table evaluates",
    "theorem scope: d and mapping_table are table descriptions with distinct columns; order_by / partition_by name "
    "columns of d; column names spliced into expression text are identifiers; selection_predicate is the default "
    "'is_null()'; coalesce_value is absent or an int/float/bool/str; d keyed by row_keys and the mapping table by "
    "(col_name_key, col_value_key) (documented preconditions of def_multi_column_map); counts in 1..max_count",
]
NOT_PROVEN = [
    "SQLite side: proved for rank_to_average (no data guard; where an order key is missing SQLite sorts it first and Pandas "
    "last, both statements given), last_observed_carried_forward (guard: no partition key missing = finding "
    "C21-locf-null-partition, necessity proved) and replicate_rows_query (under hlog); def_multi_column_map uses convert_records, "
    "which is outside every SQL fragment (C21_multi_column_map_outside_sql): its SQL is covered by the correspondence "
    "k5_solutions and the oracle only",
    "last_observed_carried_forward with a missing partition key on SQLite / a Pandas join type check (finding "
    "C21-locf-null-partition); replicate_rows_query with count 0 (finding C21-replicate-zero-count); "
    "def_multi_column_map with one listed column (finding C21-multi-map-single-column): outside the theorems' "
    "hypotheses, reported by the oracle",
    "general views d (not table descriptions): proved for rank_to_average only (C21_rank_to_average_view); for the "
    "other helpers the builders' simplifications over an arbitrary prefix are C06's subject",
    "float behaviour of log/ceil beyond the exhaustively evaluated range 1..N",
]
LEVEL_TEXT = ("Kernel-checked, for every table description, every parameter choice each helper accepts and every "
              "environment: (1) each helper builds exactly the stated node tree (no builder simplification applies) and "
              "its assertions give the side conditions; (2) on the Pandas configuration of the executor model with the "
              "concrete window / scalar functions: rank_to_average returns the input rows in input order with the mean "
              "of the 1-based positions of the row's tie group within its partition (full, also for general views); "
              "last_observed_carried_forward returns, up to row order, the input rows with each missing value replaced by "
              "the value of the latest strictly earlier row of its partition (order_by, ties broken by the helper's own "
              "pairwise different row numbers) whose value is present, unchanged if present (full, ties and several "
              "partitions included); def_multi_column_map returns, up to row order, one row per input row with every "
              "listed column mapped through the mapping table, unmapped -> null / coalesce value, optional new names "
              "(full, under the documented keyedness preconditions); replicate_rows_query returns every row count times "
              "numbered 0..count-1 in order, for both executor configurations and every interpretation satisfying "
              "PowerSem/LtSem, under hypothesis hlog (the engines' floating ceil(log c / log 2) is exact), which the "
              "check discharges by complete evaluation of the finite table 1..N on numpy, Pandas and SQLite.")
LEVEL_NOTE = ("Trusted: Lean kernel; axioms propext/Classical.choice/Quot.sound; the shared hand-written executor / SQL "
              "models and the helper models (tied to /repo by k2_solutions, k4_solutions, k5_solutions on every run); "
              "pandas / SQLite primitives as modelled; hlog by exhaustive evaluation up to N only. The SQLite side is "
              "correspondence + oracle, not theorem. Four findings on the unchanged code are recorded as known findings.")
RULE = ("k2_solutions: random parameters for the four helpers over tables d(id, g, h, o, q, v, w) / d(k, n, x) / d(id, k2, "
        "c1..c3, other) + mapping table, 40% with exactly one injected parameter fault (19 fault kinds: name clashes, "
        "unknown / duplicate / empty names, single listed column, non-table d, wrong lengths, count column named power, "
        "join temp named like d ...), 30% with d behind an order_rows / extend / select_rows prefix; k4/k5_solutions: the "
        "same generators with 0..8 (thorough ..16) rows, values from small pools so that ties in order_by, several "
        "partitions, missing values (45% of the value column), missing order / partition keys, counts 1..max_count "
        "(max_count up to 64), unmapped values, missing mapped values and coalesce values occur; oracle_ties: locf with "
        "ties in order_by and missing partition keys, replicate with zero counts; hlog_table: every c in 1..N. "
        "non-trivial = the helper evaluates to at least one row (k2: the case is expressible)")

F_SINGLE = "C21-multi-map-single-column"
F_ZERO = "C21-replicate-zero-count"
F_COALESCE = "C21-coalesce-text"
F_NULLPART = "C21-locf-null-partition"


# ------------------------------------------------------------------------------------------------
# the real helpers
# ------------------------------------------------------------------------------------------------

def _sol():
    import data_algebra.solutions as s
    return s


def _descr(name, cols):
    return pipes.L.TableDescription(table_name=name, column_names=list(cols))


def mk_d(case):
    """the view `d` handed to the helper: a table description, optionally behind a step that the builders treat
    specially (an order_rows without limit is skipped by every builder; an extend may be merged into)"""
    d = _descr("d", case["tables"]["d"]["cols"])
    pre = case.get("d_prefix")
    if pre:
        kind = pre["kind"]
        if kind == "order":
            d = d.order_rows(list(pre["cols"]))
        elif kind == "extend":
            d = d.extend({pre["new"]: pre["expr"]})
        elif kind == "select_rows":
            d = d.select_rows(pre["expr"])
    return d


def call_helper(case, d=None):
    """-> (ops, extra) ; extra = count frame for replicate_rows_query"""
    s = _sol()
    h = case["helper"]
    p = dict(case["params"])
    if d is None:
        d = mk_d(case)
    if h == "rank_to_average":
        return s.rank_to_average(d, **p), None
    if h == "last_observed_carried_forward":
        return s.last_observed_carried_forward(d, **p), None
    if h == "replicate_rows_query":
        ops, cf = s.replicate_rows_query(d, **p)
        return ops, cf
    if h == "def_multi_column_map":
        m = _descr("m", case["tables"]["m"]["cols"])
        cv = p.pop("coalesce_value", None)
        if isinstance(cv, dict):
            cv = pipes.dec_val(cv)
        return s.def_multi_column_map(d, mapping_table=m, coalesce_value=cv, **p), None
    raise ValueError(h)


def exec_tables(case, extra):
    """tables to execute on: the case's tables (+ the count frame under join_temp_name)"""
    tabs = dict(case["tables"])
    if case["helper"] == "replicate_rows_query" and extra is not None:
        t = pipes.frame_to_table(extra)
        tabs[case["params"]["join_temp_name"]] = t
    return tabs


def mcm_json(case):
    p = case["params"]
    return {"row_keys": list(p["row_keys"]), "cols_to_map": list(p["cols_to_map"]),
            "col_name_key": p.get("col_name_key", "column_name"), "col_value_key": p.get("col_value_key", "column_value"),
            "mapped_value_key": p.get("mapped_value_key", "mapped_value")}


# ------------------------------------------------------------------------------------------------
# generators
# ------------------------------------------------------------------------------------------------

STR_POOL = ["a", "b", "c", "x y", ""]
NUM_POOL = [0, 1, 2, 3, 5]


def _col_vals(rng, kind, n, null_rate, pool=None, unique=False):
    if unique:
        vals = list(range(1, n + 1))
        rng.shuffle(vals)
        if kind == "float":
            vals = [v / 2 for v in vals]
        if kind == "str":
            vals = ["k%d" % v for v in vals]
        return vals
    out = []
    for _ in range(n):
        if rng.random() < null_rate:
            out.append(None)
        elif kind == "str":
            out.append(rng.choice(pool or STR_POOL))
        elif kind == "float":
            out.append(rng.choice(pool or NUM_POOL) / rng.choice([1, 2]))
        else:
            out.append(rng.choice(pool or NUM_POOL))
    return out


def _nrows(rng, tier):
    hi = 8 if tier == "quick" else 16
    return rng.choice([0, 1, 2, 3, 4, 5, 6, hi, hi])


def _table(cols, kinds, columns):
    n = len(columns[0]) if columns else 0
    rows = [[columns[j][i] for j in range(len(cols))] for i in range(n)]
    return pipes.mk_table(cols, kinds, rows)


def gen_window_case(rng, tier, helper, ties=True, null_order=0.1, null_part=0.15):
    """a case for rank_to_average / last_observed_carried_forward: table d(id, g, h, o, q, v, w)"""
    n = _nrows(rng, tier)
    npart = rng.choice([0, 1, 1, 2])
    nord = rng.choice([1, 1, 2])
    part_cols = ["g", "h"][:npart]
    ord_cols = ["o", "q"][:nord]
    cols, kinds, columns = ["id"], ["int"], [list(range(n))]
    for c in part_cols:
        k = rng.choice(["str", "int"])
        cols.append(c)
        kinds.append(k)
        columns.append(_col_vals(rng, k, n, null_part if rng.random() < 0.5 else 0.0,
                                 pool=["a", "b"] if k == "str" else [1, 2]))
    for c in ord_cols:
        k = rng.choice(["int", "float", "str"])
        cols.append(c)
        kinds.append(k)
        if ties:
            columns.append(_col_vals(rng, k, n, null_order if rng.random() < 0.4 else 0.0,
                                     pool=["a", "b", "c"] if k == "str" else [1, 2, 3]))
        else:
            columns.append(_col_vals(rng, k, n, 0.0, unique=True))
    if not ties and ord_cols:
        # make the last order column unique so that the whole key is (ties in the first one stay possible)
        pass
    vk = rng.choice(["float", "float", "int", "str"])
    cols.append("v")
    kinds.append(vk)
    columns.append(_col_vals(rng, vk, n, 0.45, pool=["A", "B", "C"] if vk == "str" else [1, 2, 3, 7]))
    if rng.random() < 0.5:
        cols.append("w")
        kinds.append("int")
        columns.append(_col_vals(rng, "int", n, 0.1))
    # shuffle the column order of the table (the helpers must not depend on it); keep rows as generated
    order = list(range(len(cols)))
    rng.shuffle(order)
    cols = [cols[i] for i in order]
    kinds = [kinds[i] for i in order]
    columns = [columns[i] for i in order]
    tables = {"d": _table(cols, kinds, columns)}
    pb = rng.choice([None, part_cols, part_cols]) if part_cols else rng.choice([None, []])
    if helper == "rank_to_average":
        params = {"order_by": ord_cols, "partition_by": pb, "rank_column_name": rng.choice(["rk", "rank", "r_1"])}
        if rng.random() < 0.3:
            params["tie_breaker_column_name"] = rng.choice(["tb", "zz_tie"])
    else:
        params = {"order_by": ord_cols, "partition_by": pb, "value_column_name": "v"}
        if rng.random() < 0.3:
            params["locf_to_use_column_name"] = "use_it"
        if rng.random() < 0.3:
            params["locf_non_null_rank_column_name"] = "nn_rank"
        if rng.random() < 0.3:
            params["locf_tiebreaker_column_name"] = "tb"
    return {"helper": helper, "params": params, "tables": tables}


def gen_replicate_case(rng, tier, zero=0.0):
    n = _nrows(rng, tier)
    max_count = rng.choice([1, 2, 3, 4, 5, 7, 8, 9, 16, 17] + ([31, 33, 64] if tier != "quick" else []))
    counts = []
    for _ in range(n):
        r = rng.random()
        if r < zero:
            counts.append(0)
        elif r < 0.25:
            counts.append(max_count)
        elif r < 0.4:
            counts.append(1)
        else:
            counts.append(rng.randint(1, max_count))
    cols, kinds, columns = ["k", "n"], ["str", "int"], [_col_vals(rng, "str", n, 0.1), counts]
    if rng.random() < 0.5:
        cols.append("x")
        kinds.append("float")
        columns.append(_col_vals(rng, "float", n, 0.2))
    order = list(range(len(cols)))
    rng.shuffle(order)
    tables = {"d": _table([cols[i] for i in order], [kinds[i] for i in order], [columns[i] for i in order])}
    params = {"count_column_name": "n", "seq_column_name": rng.choice(["i", "seq", "copy_no"]),
              "join_temp_name": rng.choice(["jt", "count_frame"]), "max_count": max_count}
    return {"helper": "replicate_rows_query", "params": params, "tables": tables}


def gen_mcm_case(rng, tier, ncols=None):
    n = _nrows(rng, tier)
    ncols = ncols or rng.choice([2, 2, 3])
    vk = rng.choice(["str", "str", "int"])
    pool = ["a", "b", "c", "d"] if vk == "str" else [1, 2, 3, 4]
    map_cols = ["c1", "c2", "c3"][:ncols]
    nkeys = rng.choice([1, 1, 2])
    key_cols = ["id", "k2"][:nkeys]
    cols, kinds, columns = [], [], []
    ids = list(range(1, n + 1))
    rng.shuffle(ids)
    cols.append("id")
    kinds.append("int")
    columns.append(ids)
    if nkeys == 2:
        cols.append("k2")
        kinds.append("str")
        columns.append(_col_vals(rng, "str", n, 0.0, pool=["p", "q"]))
    for c in map_cols:
        cols.append(c)
        kinds.append(vk)
        columns.append(_col_vals(rng, vk, n, 0.15, pool=pool))
    if rng.random() < 0.5:
        cols.append("other")
        kinds.append("float")
        columns.append(_col_vals(rng, "float", n, 0.2))
    names = {"col_name_key": "column_name", "col_value_key": "column_value", "mapped_value_key": "mapped_value"}
    if rng.random() < 0.3:
        names = {"col_name_key": "cn", "col_value_key": "cv", "mapped_value_key": "mv"}
    # the mapping table: uniquely keyed by (name, value); some pairs unmapped; a column not to be mapped; an extra column
    mk = rng.choice(["float", "float", "str"])
    mrows = []
    for c in map_cols + ["other_col"]:
        for v in pool:
            if rng.random() < 0.65:
                mv = None if rng.random() < 0.1 else (rng.choice([10, 20, 30, 0.5]) if mk == "float" else
                                                      rng.choice(["X", "Y", "Z"]))
                mrows.append([c, v, mv, rng.choice([1, 2])])
    rng.shuffle(mrows)
    mcols = [names["col_name_key"], names["col_value_key"], names["mapped_value_key"], "extra"]
    mkinds = ["str", vk, mk, "int"]
    if not mrows:
        mrows = [[map_cols[0], pool[0], 10 if mk == "float" else "X", 1]]
    tables = {"d": _table(cols, kinds, columns), "m": pipes.mk_table(mcols, mkinds, mrows)}
    params = {"row_keys": key_cols, "cols_to_map": map_cols}
    if names["col_name_key"] != "column_name":
        params.update(names)
    if rng.random() < 0.5:
        # string values (also ones that look like column names, or carry quotes) are spliced as quoted literals
        cvv = rng.choice([0, -1, 99, 0.25]) if mk == "float" else rng.choice(
            ["unknown", names["col_value_key"], "it's", 'say "x"', "", "a b"])
        params["coalesce_value"] = pipes.enc_val(cvv, "float" if isinstance(cvv, float) else ("str" if isinstance(cvv, str) else "int"))
    if rng.random() < 0.4:
        params["cols_to_map_back"] = [c + "_mapped" for c in map_cols]
    return {"helper": "def_multi_column_map", "params": params, "tables": tables}


def gen_valid(rng, tier, corr=True):
    h = rng.choice(["rank_to_average", "last_observed_carried_forward", "replicate_rows_query",
                    "def_multi_column_map"])
    if h == "rank_to_average":
        return gen_window_case(rng, tier, h, ties=True)
    if h == "last_observed_carried_forward":
        return gen_window_case(rng, tier, h, ties=not corr, null_part=0.0 if corr else 0.1)
    if h == "replicate_rows_query":
        return gen_replicate_case(rng, tier)
    return gen_mcm_case(rng, tier)


FAULTS = {
    "rank_to_average": ["rank_is_col", "tb_is_col", "rank_eq_tb", "order_unknown", "part_unknown", "order_empty",
                        "order_in_part", "order_dup"],
    "last_observed_carried_forward": ["tmp_is_col", "tmp_same", "order_unknown", "part_unknown", "value_unknown",
                                      "order_empty", "value_in_order"],
    "replicate_rows_query": ["count_unknown", "seq_is_col", "max_zero", "count_is_power", "power_is_col",
                             "seq_is_power", "temp_is_d", "d_not_table"],
    "def_multi_column_map": ["single_col", "no_keys", "no_cols", "dup_pre", "dup_mid", "back_len", "back_dup",
                             "col_unknown", "map_missing_col", "name_in_cols", "empty_name"],
}


def inject_fault(rng, case):
    """apply exactly one parameter fault; returns the fault name"""
    h = case["helper"]
    f = rng.choice(FAULTS[h])
    p = case["params"]
    dcols = case["tables"]["d"]["cols"]
    if h == "rank_to_average":
        if f == "rank_is_col":
            p["rank_column_name"] = rng.choice(dcols)
        elif f == "tb_is_col":
            p["tie_breaker_column_name"] = rng.choice(dcols)
        elif f == "rank_eq_tb":
            p["tie_breaker_column_name"] = p["rank_column_name"]
        elif f == "order_unknown":
            p["order_by"] = list(p["order_by"]) + ["nope"]
        elif f == "part_unknown":
            p["partition_by"] = list(p["partition_by"] or []) + ["nope"]
        elif f == "order_empty":
            p["order_by"] = []
        elif f == "order_in_part":
            p["partition_by"] = list(p["partition_by"] or []) + [p["order_by"][0]]
        elif f == "order_dup":
            p["order_by"] = list(p["order_by"]) + [p["order_by"][0]]
    elif h == "last_observed_carried_forward":
        if f == "tmp_is_col":
            p[rng.choice(["locf_to_use_column_name", "locf_non_null_rank_column_name",
                          "locf_tiebreaker_column_name"])] = rng.choice(dcols)
        elif f == "tmp_same":
            p["locf_to_use_column_name"] = "t"
            p["locf_tiebreaker_column_name"] = "t"
        elif f == "order_unknown":
            p["order_by"] = list(p["order_by"]) + ["nope"]
        elif f == "part_unknown":
            p["partition_by"] = list(p["partition_by"] or []) + ["nope"]
        elif f == "value_unknown":
            p["value_column_name"] = "nope"
        elif f == "order_empty":
            p["order_by"] = []
        elif f == "value_in_order":
            p["order_by"] = list(p["order_by"]) + ["v"]
    elif h == "replicate_rows_query":
        if f == "count_unknown":
            p["count_column_name"] = "nope"
        elif f == "seq_is_col":
            p["seq_column_name"] = rng.choice(dcols)
        elif f == "max_zero":
            p["max_count"] = 0
        elif f == "count_is_power":
            t = case["tables"]["d"]
            t["cols"] = ["power" if c == "n" else c for c in t["cols"]]
            p["count_column_name"] = "power"
        elif f == "power_is_col":
            t = case["tables"]["d"]
            t["cols"] = ["power" if c == "k" else c for c in t["cols"]]
        elif f == "seq_is_power":
            p["seq_column_name"] = "power"
        elif f == "temp_is_d":
            p["join_temp_name"] = "d"
        elif f == "d_not_table":
            case["d_prefix"] = {"kind": "select_rows", "expr": "n > 0"}
    else:
        if f == "single_col":
            p["cols_to_map"] = p["cols_to_map"][:1]
            if "cols_to_map_back" in p:
                p["cols_to_map_back"] = p["cols_to_map_back"][:1]
        elif f == "no_keys":
            p["row_keys"] = []
        elif f == "no_cols":
            p["cols_to_map"] = []
            p.pop("cols_to_map_back", None)
        elif f == "dup_pre":
            p["cols_to_map"] = list(p["cols_to_map"]) + [rng.choice(p["row_keys"] + p["cols_to_map"])]
            p.pop("cols_to_map_back", None)
        elif f == "dup_mid":
            p["mapped_value_key"] = p.get("col_value_key", "column_value")
        elif f == "back_len":
            p["cols_to_map_back"] = ["z1"]
            if len(p["cols_to_map"]) == 1:
                p["cols_to_map_back"] = ["z1", "z2"]
        elif f == "back_dup":
            p["cols_to_map_back"] = [p["row_keys"][0]] + ["zz%d" % i for i in range(len(p["cols_to_map"]) - 1)]
        elif f == "col_unknown":
            p["cols_to_map"] = list(p["cols_to_map"][:-1]) + ["nope"]
            if "cols_to_map_back" in p:
                p["cols_to_map_back"] = ["b%d" % i for i in range(len(p["cols_to_map"]))]
        elif f == "map_missing_col":
            t = case["tables"]["m"]
            t["cols"] = [c if i != 2 else "renamed_away" for i, c in enumerate(t["cols"])]
        elif f == "name_in_cols":
            t = case["tables"]["d"]
            nk = p.get("col_name_key", "column_name")
            t["cols"] = [nk if c == p["cols_to_map"][0] else c for c in t["cols"]]
            p["cols_to_map"] = [nk] + list(p["cols_to_map"][1:])
        elif f == "empty_name":
            t = case["tables"]["d"]
            t["cols"] = ["" if c == p["cols_to_map"][0] else c for c in t["cols"]]
            p["cols_to_map"] = [""] + list(p["cols_to_map"][1:])
    return f


def shrink_tables(case):
    """smaller cases: drop one row of a table; drop a column the parameters do not mention"""
    mentioned = set()
    for v in case["params"].values():
        if isinstance(v, str):
            mentioned.add(v)
        elif isinstance(v, list):
            mentioned.update(x for x in v if isinstance(x, str))
    for name, t in case["tables"].items():
        for i in range(len(t["rows"])):
            c = dict(case, tables=dict(case["tables"]))
            c["tables"][name] = dict(t, rows=t["rows"][:i] + t["rows"][i + 1:])
            yield c
        if name == "d":
            for j, col in enumerate(t["cols"]):
                if col in mentioned or len(t["cols"]) <= 1 or col == "id":
                    continue
                c = dict(case, tables=dict(case["tables"]))
                c["tables"][name] = {"cols": t["cols"][:j] + t["cols"][j + 1:], "kinds": t["kinds"][:j] + t["kinds"][j + 1:],
                                     "rows": [r[:j] + r[j + 1:] for r in t["rows"]]}
                yield c


# ------------------------------------------------------------------------------------------------
# independent references (plain Python; no data_algebra, no Lean model)
# ------------------------------------------------------------------------------------------------

def _rows_as_dicts(t):
    return [dict(zip(t["cols"], [pipes.dec_val(v) for v in r])) for r in t["rows"]]


def _cmp_key(v, nulls_first):
    """sort key of a cell inside one column (one kind per column): nulls first (SQLite) or last (Pandas)"""
    if v is None:
        return (0, 0) if nulls_first else (2, 0)
    return (1, v)


def _okey(row, order_by, nulls_first):
    return tuple(_cmp_key(row[c], nulls_first) for c in order_by)


def _pkey(row, part):
    return tuple(("null",) if row[c] is None else ("v", row[c]) for c in part)


def ref_rank(rows, order_by, part, nulls_first):
    """for every row: the mean of the 1-based positions of its tie group within its partition"""
    out = []
    for r in rows:
        same = [s for s in rows if _pkey(s, part) == _pkey(r, part)]
        less = sum(1 for s in same if _okey(s, order_by, nulls_first) < _okey(r, order_by, nulls_first))
        ties = sum(1 for s in same if _okey(s, order_by, nulls_first) == _okey(r, order_by, nulls_first))
        positions = [less + 1 + i for i in range(ties)]
        out.append(sum(positions) / len(positions))
    return out


def ref_locf_possible(rows, order_by, part, vcol, nulls_first, observed):
    """is `observed` (id -> filled value) a forward fill of `vcol` per partition in SOME total order refining
    order_by?  (the helper breaks ties by a row number the documentation leaves unspecified)

    Inside one tie group any arrangement is allowed: a row with a present value keeps it; a row with a missing value
    receives the value carried into the group (if it is placed before every present value of the group) or the
    value of a present row of the group placed before it - every such assignment is realised by some arrangement;
    the value carried out of the group is that of whichever present row comes last (any of them), or the carried-in
    value when the group has none.
    returns None or a description of the first tie group that cannot be explained"""
    parts = {}
    for r in rows:
        parts.setdefault(_pkey(r, part), []).append(r)
    for pk, prs in parts.items():
        groups = {}
        for r in prs:
            groups.setdefault(_okey(r, order_by, nulls_first), []).append(r)
        carried = [None]          # possible carried-in values (None = nothing seen yet)
        for gk in sorted(groups):
            grp = groups[gk]
            present = [r[vcol] for r in grp if r[vcol] is not None]
            nxt = []
            for carry in carried:
                ok = True
                for r in grp:
                    got = observed.get(r["id"], "missing")
                    if r[vcol] is not None:
                        ok = ok and _same_val(got, r[vcol])
                    else:
                        ok = ok and any(_same_val(got, w) for w in [carry] + present)
                if ok:
                    for w in (present if present else [carry]):
                        if not any(_same_val(w, x) for x in nxt):
                            nxt.append(w)
            if not nxt:
                return f"partition {pk}: tie group {gk} has no consistent fill; rows {[(r['id'], r[vcol]) for r in grp]} " \
                       f"observed {[observed.get(r['id']) for r in grp]} carried-in {carried}"
            carried = nxt
    return None


def _same_val(a, b):
    if a is None or b is None:
        return a is None and b is None
    if isinstance(a, str) or isinstance(b, str):
        return a == b
    try:
        return abs(float(a) - float(b)) <= 1e-9 * max(1.0, abs(float(a)), abs(float(b)))
    except Exception:
        return a == b


def _multiset_diff(exp_rows, got_rows, cols):
    """None when the two lists of dict rows are equal as multisets on `cols` (tolerant numbers)"""
    rest = list(got_rows)
    missing = []
    for e in exp_rows:
        for i, g in enumerate(rest):
            if all(_same_val(g.get(c, "absent"), e[c]) for c in cols):
                del rest[i]
                break
        else:
            missing.append(e)
    if missing or rest:
        return f"expected-but-absent {[[m[c] for c in cols] for m in missing[:3]]} " \
               f"unexpected {[[g.get(c) for c in cols] for g in rest[:3]]} (cols {cols})"
    return None


def judge(case, engine, out):
    """the property on one engine's result `out` ({"ok": Table} | {"err": cls}); None or '<kind>: detail'"""
    h = case["helper"]
    p = case["params"]
    if "err" in out:
        return f"{engine}-raises: {h} raised {out['err']} on a valid input"
    res = out["ok"]
    got = _rows_as_dicts(res)
    d = case["tables"]["d"]
    drows = _rows_as_dicts(d)
    nulls_first = engine == "sqlite"
    if h == "rank_to_average":
        part = list(p.get("partition_by") or [])
        rk = p["rank_column_name"]
        want_cols = list(d["cols"]) + [rk]
        if sorted(res["cols"]) != sorted(want_cols):
            return f"{engine}-columns: result columns {res['cols']} expected {want_cols}"
        ranks = ref_rank(drows, p["order_by"], part, nulls_first)
        exp = [dict(r, **{rk: x}) for r, x in zip(drows, ranks)]
        why = _multiset_diff(exp, got, want_cols)
        return f"{engine}-rank: {why}" if why else None
    if h == "last_observed_carried_forward":
        part = list(p.get("partition_by") or [])
        v = p["value_column_name"]
        if sorted(res["cols"]) != sorted(d["cols"]):
            return f"{engine}-columns: result columns {res['cols']} expected {d['cols']}"
        # every row is returned once, unchanged outside the value column
        other = [c for c in d["cols"] if c != v]
        why = _multiset_diff([{c: r[c] for c in other} for r in drows], [{c: g[c] for c in other} for g in got], other)
        if why:
            return f"{engine}-locf-rows: {why}"
        observed = {g["id"]: g[v] for g in got}
        why = ref_locf_possible(drows, p["order_by"], part, v, nulls_first, observed)
        return f"{engine}-locf: {why}" if why else None
    if h == "replicate_rows_query":
        cnt, seq = p["count_column_name"], p["seq_column_name"]
        want_cols = list(d["cols"]) + [seq]
        if sorted(res["cols"]) != sorted(want_cols):
            return f"{engine}-columns: result columns {res['cols']} expected {want_cols}"
        exp = []
        for r in drows:
            for i in range(int(r[cnt])):
                exp.append(dict(r, **{seq: i}))
        why = _multiset_diff(exp, got, want_cols)
        return f"{engine}-replicate: {why}" if why else None
    if h == "def_multi_column_map":
        nk = p.get("col_name_key", "column_name")
        vk = p.get("col_value_key", "column_value")
        mk = p.get("mapped_value_key", "mapped_value")
        keys, cmap = list(p["row_keys"]), list(p["cols_to_map"])
        back = list(p.get("cols_to_map_back") or cmap)
        want_cols = keys + back
        if sorted(res["cols"]) != sorted(want_cols):
            return f"{engine}-columns: result columns {res['cols']} expected {want_cols}"
        table = {}
        for mrow in _rows_as_dicts(case["tables"]["m"]):
            table[(mrow[nk], mrow[vk])] = mrow[mk]
        cv = p.get("coalesce_value")
        cv = pipes.dec_val(cv) if isinstance(cv, dict) else cv
        exp = []
        for r in drows:
            e = {k: r[k] for k in keys}
            for c, b in zip(cmap, back):
                mv = table.get((c, r[c])) if r[c] is not None else None
                if mv is None and cv is not None:
                    mv = cv
                e[b] = mv
            exp.append(e)
        why = _multiset_diff(exp, got, want_cols)
        return f"{engine}-multi-map: {why}" if why else None
    return None


def known_finding(case, why):
    """which known finding (guard) a failing case falls under, or None"""
    h = case["helper"]
    p = case["params"]
    if h == "def_multi_column_map" and len(p.get("cols_to_map", [])) == 1 and "raises" in why:
        return F_SINGLE
    if h == "replicate_rows_query" and "raises" in why:
        t = case["tables"]["d"]
        j = t["cols"].index(p["count_column_name"]) if p["count_column_name"] in t["cols"] else None
        if j is not None and any(pipes.dec_val(r[j]) == 0 for r in t["rows"]):
            return F_ZERO
    if h == "last_observed_carried_forward" and (why.startswith("sqlite-locf") or why.startswith("pandas-raises")):
        t = case["tables"]["d"]
        part = list(p.get("partition_by") or [])
        idx = [t["cols"].index(c) for c in part if c in t["cols"]]
        if any(r[j] is None for r in t["rows"] for j in idx):
            return F_NULLPART
    return None


# ------------------------------------------------------------------------------------------------
# suites
# ------------------------------------------------------------------------------------------------

def _quiet(f, *a, **k):
    with warnings.catch_warnings():
        warnings.simplefilter("ignore")
        return f(*a, **k)


class K2Solutions(Suite):
    """tree equality: real helper vs the model's builders"""
    name = "k2_solutions"
    n_quick, n_thorough = 250, 2500

    def __init__(self):
        self.distribution = {}

    def _count(self, k):
        self.distribution[k] = self.distribution.get(k, 0) + 1

    def gen(self, rng, tier):
        n = self.n_quick if tier == "quick" else self.n_thorough
        for _ in range(n):
            r = random.Random(rng.getrandbits(64))
            case = gen_valid(r, "quick")
            for t in case["tables"].values():
                t["rows"] = []
            if case["helper"] != "replicate_rows_query" and r.random() < 0.3:
                dc = case["tables"]["d"]["cols"]
                kind = r.choice(["order", "extend", "select_rows"])
                if kind == "order":
                    case["d_prefix"] = {"kind": "order", "cols": [r.choice(dc)]}
                elif kind == "extend":
                    case["d_prefix"] = {"kind": "extend", "new": "zz_new", "expr": "id + 1" if "id" in dc else "1"}
                else:
                    case["d_prefix"] = {"kind": "select_rows", "expr": "id > 0" if "id" in dc else "1 == 1"}
            fault = None
            if r.random() < 0.4:
                fault = inject_fault(r, case)
            case["fault"] = fault
            self._count(case["helper"] + (":fault:" + fault if fault else ":valid"))
            yield case

    def corpus(self):
        return [c for c in corpus_cases() if c.get("suite") in (None, "k2")]

    def real(self, case):
        try:
            d = _quiet(mk_d, case)
        except Exception as e:
            # the view `d` itself cannot be built (a fault renamed a column its prefix step uses): not a helper question
            return {"skip": "d: " + type(e).__name__}
        try:
            ops, extra = _quiet(call_helper, case, d)
        except Exception as e:
            return {"err": type(e).__name__}
        out = {"ok": mt.to_model_tree(ops)}
        if extra is not None:
            t = pipes.frame_to_table(extra)
            out["count_frame"] = mt.canon_table(t, sort_cols=False, sort_rows=False)
        return out

    def driver_case(self, case):
        try:
            d = _quiet(mk_d, case)
            dt = mt.to_model_tree(d)
        except Exception:
            dt = {"node": "table", "name": "d", "cols": list(case["tables"]["d"]["cols"])}
        c = {"helper": case["helper"], "d": dt}
        c.update(case["params"])
        if case["helper"] == "def_multi_column_map":
            c["mapping_table"] = {"node": "table", "name": "m", "cols": list(case["tables"]["m"]["cols"])}
        return c

    def model_canon(self, out, case=None):
        if isinstance(out, dict) and "count_frame" in out:
            out = dict(out, count_frame=mt.canon_table(out["count_frame"], sort_cols=False, sort_rows=False))
        return out

    def agree(self, real_c, model_c):
        # a fault that makes the table description of `d` itself ill-formed is rejected by TableDescription, before
        # the helper is entered; the model's `d` is then not a description of anything: both are "rejected"
        if isinstance(real_c, dict) and "skip" in real_c:
            return True
        if isinstance(real_c, dict) and isinstance(model_c, dict) and "err" in real_c and "err" in model_c:
            return real_c["err"] == model_c["err"]
        return super().agree(real_c, model_c)

    def nontrivial(self, case, real_out):
        return not (isinstance(real_out, dict) and "skip" in real_out)

    def oracle(self, case, real_out):
        # valid parameters must be accepted
        if case.get("fault") is None and isinstance(real_out, dict) and "err" in real_out:
            return f"build-raises: {case['helper']} raised {real_out['err']} on valid parameters"
        return None

    def finding(self, case, real_out, why):
        return known_finding(case, why)


class K4Solutions(Suite):
    """Pandas execution of the real helper pipelines vs the model; oracle on Pandas and SQLite"""
    name = "k4_solutions"
    n_quick, n_thorough = 170, 2000
    engine = "pandas"

    def __init__(self):
        self.distribution = {}
        self._k4 = K4Sem()
        self.sqlite_oracle_runs = 0

    def gen(self, rng, tier):
        n = self.n_quick if tier == "quick" else self.n_thorough
        for _ in range(n):
            r = random.Random(rng.getrandbits(64))
            case = gen_valid(r, tier, corr=True)
            self.distribution[case["helper"]] = self.distribution.get(case["helper"], 0) + 1
            yield case

    def corpus(self):
        return [c for c in corpus_cases() if c.get("suite") in (None, "k4")]

    def _ops(self, case):
        return _quiet(call_helper, case)

    def _run(self, ops, tabs):
        return pipes.run_pandas(ops, tabs)

    def real(self, case):
        try:
            ops, extra = self._ops(case)
        except Exception as e:
            return {"build_err": type(e).__name__}
        return self._run(ops, exec_tables(case, extra))

    def driver_case(self, case):
        try:
            ops, extra = self._ops(case)
        except Exception:
            return {"ops": {"node": "table", "name": "none", "cols": ["x"]}, "tables": {}}
        tabs = exec_tables(case, extra)
        c = {"ops": mt.to_model_tree(ops), "tables": {k: mt.table_for_model(v) for k, v in tabs.items()},
             "dialect": "sqlite", "merges": True}
        if case["helper"] == "def_multi_column_map":
            c["mcm"] = mcm_json(case)
        return c

    def _canon(self, out):
        if isinstance(out, dict) and "ok" in out:
            t = {"cols": list(out["ok"]["cols"]), "rows": [[mt._fix_lit(v) for v in r] for r in out["ok"]["rows"]]}
            return {"ok": t}
        return out

    def real_canon(self, out, case=None):
        return self._canon(out)

    def model_canon(self, out, case=None):
        return self._canon(out)

    def agree(self, real_c, model_c):
        if isinstance(model_c, dict) and "unsupported" in model_c:
            self.unsupported = getattr(self, "unsupported", 0) + 1
            return True
        if isinstance(real_c, dict) and "build_err" in real_c:
            return True
        if isinstance(real_c, dict) and "err" in real_c:
            # the engine raised at run time: judged by the oracle (a valid input must not raise), not compared
            self.real_errors = getattr(self, "real_errors", 0) + 1
            return True
        if isinstance(real_c, dict) and isinstance(model_c, dict) and "ok" in real_c and "ok" in model_c:
            return pipes.same_table(real_c["ok"], model_c["ok"], ordered=False, col_order=False) is None
        return Suite.agree(self, real_c, model_c)

    def oracle(self, case, real_out):
        if isinstance(real_out, dict) and "build_err" in real_out:
            return f"build-raises: {case['helper']} raised {real_out['build_err']} on valid parameters"
        why = judge(case, self.engine, real_out)
        if why:
            return why
        if self.engine == "pandas":
            # the same pipeline on SQLite (the property names both engines)
            try:
                ops, extra = self._ops(case)
            except Exception:
                return None
            out = pipes.run_sqlite(ops, exec_tables(case, extra))
            self.sqlite_oracle_runs += 1
            return judge(case, "sqlite", out)
        return None

    def finding(self, case, real_out, why):
        return known_finding(case, why)

    def nontrivial(self, case, real_out):
        return isinstance(real_out, dict) and "ok" in real_out and len(real_out["ok"]["rows"]) > 0

    def shrink(self, case):
        return shrink_tables(case)


class K5Solutions(K4Solutions):
    """SQLite execution of the real helper pipelines vs the model's semSql (toNearSql sqlite)"""
    name = "k5_solutions"
    n_quick, n_thorough = 120, 1500
    engine = "sqlite"

    def corpus(self):
        return []

    def _run(self, ops, tabs):
        return pipes.run_sqlite(ops, tabs)


class OracleTies(K4Solutions):
    """oracle only: locf with ties in order_by and null partition keys; replicate with zero counts"""
    name = "oracle_ties"
    corr = False
    n_quick, n_thorough = 80, 1000

    def gen(self, rng, tier):
        n = self.n_quick if tier == "quick" else self.n_thorough
        for _ in range(n):
            r = random.Random(rng.getrandbits(64))
            if r.random() < 0.8:
                case = gen_window_case(r, tier, "last_observed_carried_forward", ties=True, null_part=0.15)
            else:
                case = gen_replicate_case(r, tier, zero=0.15)
            self.distribution[case["helper"]] = self.distribution.get(case["helper"], 0) + 1
            yield case

    def corpus(self):
        return []


class HlogTable(Suite):
    """exhaustive discharge of hypothesis hlog: for every c in the chunk, ceil(log(c)/log(2)) as computed
    (1) by numpy at build time, (2) by the Pandas executor, (3) by SQLite on the helper's own power expression
    equals the exact ceil(log2 c) (driver suite c21_clog2: the Lean definition `clog2` the theorem uses)"""
    name = "hlog_table"
    driver_suite = "c21_clog2"

    def __init__(self):
        self.distribution = {}

    def gen(self, rng, tier):
        top = 2 ** 12 if tier == "quick" else 2 ** 20
        chunk = 4096 if tier == "quick" else 2 ** 16
        self.distribution = {"from": 1, "to": top, "complete": True,
                             "note": "every count 1..to is evaluated on numpy (build time), Pandas and SQLite"}
        a = 1
        while a <= top:
            b = min(top, a + chunk - 1)
            yield {"from": a, "to": b}
            a = b + 1

    def real(self, case):
        a, b = case["from"], case["to"]
        np, pd = pipes.L.np, pipes.L.pd
        s = _sol()
        counts = list(range(a, b + 1))
        # (1) build time: the number of power tables the helper creates for max_count = c
        build = [int(np.ceil(np.log(c) / np.log(2))) for c in counts]
        # (2) + (3): the helper's own extend step, evaluated on the engines
        d = _descr("d", ["n"])
        ops, _ = _quiet(s.replicate_rows_query, d, count_column_name="n", seq_column_name="i", join_temp_name="jt",
                        max_count=max(counts))
        ext = ops
        while ext.node_name != "ExtendNode":
            ext = ext.sources[0]
        frame = pd.DataFrame({"n": counts})
        with warnings.catch_warnings():
            warnings.simplefilter("ignore")
            pres = ext.eval({"d": frame})
        pandas_p = [int(str(x)[1:]) for x in pres.sort_values("n")["power"].tolist()]
        import data_algebra.SQLite
        with data_algebra.SQLite.example_handle() as h:
            h.insert_table(frame, table_name="d", allow_overwrite=True)
            with warnings.catch_warnings():
                warnings.simplefilter("ignore")
                sres = h.read_query(ext)
        sqlite_p = [int(str(x)[1:]) for x in sres.sort_values("n")["power"].tolist()]
        if not (build == pandas_p == sqlite_p):
            bad = [c for c, x, y, z in zip(counts, build, pandas_p, sqlite_p) if not (x == y == z)]
            return {"engines_disagree_at": bad[:10], "ok": pandas_p}
        return {"ok": pandas_p}

    def oracle(self, case, real_out):
        if "engines_disagree_at" in real_out:
            return f"hlog-engines: numpy / Pandas / SQLite disagree on ceil(log(c)/log(2)) at c = {real_out['engines_disagree_at']}"
        a = case["from"]
        for i, p in enumerate(real_out["ok"]):
            c = a + i
            # exact in integers: p is the least power with c <= 2^p
            if not (c <= 2 ** p and (p == 0 or 2 ** (p - 1) < c)):
                return f"hlog: ceil(log({c})/log(2)) evaluates to {p}, exact value {max(0, (c - 1).bit_length())}"
        return None

    def nontrivial(self, case, real_out):
        return True


# ------------------------------------------------------------------------------------------------
# corpus: witnesses of the known findings and regression cases
# ------------------------------------------------------------------------------------------------

def corpus_cases():
    import json
    import os
    from ..core import VERIF
    out = []
    d = os.path.join(VERIF, "corpus", "C21")
    if os.path.isdir(d):
        for f in sorted(os.listdir(d)):
            if f.endswith(".json"):
                out.append(json.load(open(os.path.join(d, f))))
    return out


SUITES = [K2Solutions(), K4Solutions(), K5Solutions(), OracleTies(), HlogTable()]
