"""C02 — PostgreSQL SQL computes the same table as the Pandas executor."""
from .. import oracles
from ..propkit import OracleOnly, with_oracle
from ..suites_ops import K4Sem
from ..suites_sql import K5Near, K5SemOpt, K5Twins

PROPERTY = "C02"
LEAN_MODULES = ["DAVerif.Props.C01core", "DAVerif.Props.C04merge", "DAVerif.Props.C01joins", "DAVerif.Props.C16full", "DAVerif.Props.C01all", "DAVerif.Props.C16nested", "DAVerif.Props.C18"]
THEOREMS = ["DAVerif." + t for t in (
    "C01_translation_engine_order", "C01_translation_sound_unary", "C01_translation_rows", "C01_translation_exact",
    "C01_final_order", "C01_translation_sound_reachable", "C01_reachable_sqlwf", "C08_sql_cols", "C09_sql_row_count",
    "C09_sql_ungrouped_one_row", "C01_nullorder_necessary_sqlite", "C01_nullorder_necessary_postgres",
    "C08_rename_twice_necessary", "C18_perm_invariant_gen",
    # the same statements for every setting of allow_extend_merges (Props/C04merge.lean)
    "Sql.C01_translation_engine_order_merges", "Sql.C01_translation_sound_unary_merges", "Sql.C01_translation_sound_reachable_merges",
    "Sql.C01_translation_exact_merges", "Sql.C08_sql_cols_merges", "Sql.C09_sql_row_count_merges", "Sql.C01_to_sql_total",
    "Sql.C04_merge_option_sound", "Sql.C04_merge_invariant",
    # natural_join (all types) and concat_rows (Props/C01joins.lean, Props/C16full.lean)
    "C01_joins_engine_order", "C01_translation_sound_joins", "C01_translation_sound_joins_generic", "C01_translation_sound_joins_sqlite",
    "C01_translation_exact_joins", "C01_translation_sound_joins_reachable", "C08_sql_cols_joins", "C16_sql_native", "C16_sqlite_right_as_left",
    "C16_sqlite_full_scope", "C16_sqlite_full_partial", "C16_sqlite_full_nullkeys_necessary",
    # joins + concat_rows for EVERY configuration (extend merges on or off), Props/C01all.lean
    "C01_engine_order_all", "C01_translation_sound_all", "C01_translation_sound_all_generic", "C01_translation_sound_all_sqlite",
    "C01_translation_sound_all_reachable", "C01_translation_exact_all", "C08_sql_cols_all", "C09_sql_row_count_all",
    "C04_merge_option_sound_all", "C04_merge_invariant_all",
    # SQLite's emulated RIGHT / FULL joins anywhere in the pipeline, up to row order (Props/C16nested.lean)
    "C01_translation_sound_nested", "C01_translation_sound_sqlite_five_joins", "C01_translation_sound_nested_reachable",
    "C01_translation_sound_sqlite_right_anywhere", "C01_final_order_nested", "C08_sql_cols_nested", "C09_sql_row_count_nested",
    "C16_nested_fullkeys_necessary")]
ASSUMPTIONS = [
    "THERE IS NO PostgreSQL SERVER IN THE SANDBOX: the engine is assumed to implement `semSql` with EngineCfg.postgres (NULLs "
    "sort largest); PostgreSQL-only behaviour (integer division, numeric coercions, STDDEV_SAMP on one row, CAST rounding) is "
    "modelled from documentation, not observed. The PostgreSQL-dialect TEXT is executed on SQLite 3.40 as a stand-in standard "
    "SQL engine (native RIGHT/FULL joins, WITH, CTE reuse), which exercises the translation paths the SQLite dialect never takes.",
    "the stand-in evaluator = `semSql`/`semNear` (lean/DAVerif/Sql/Sem.lean): bag semantics, WHERE keeps TRUE rows, GROUP BY groups "
    "NULLs, an aggregate SELECT without GROUP BY returns one row, default window frame = ROWS frame under a total order, NULLs "
    "sort smallest. Validated on every run by executing the real generated SQL on SQLite (suite k5_sem).",
    "the translation model `toNearSql` = `to_near_sql_implementation_` (suite k5_near: structure of the real NearSQL tree); the "
    "rendering of the tree to text is not modelled (the executed text is what k5_sem validates)",
    "the executor model `sem` = pandas_base.py (suite k4_sem)",
    "the theorem is stated for ONE interpretation Θ of the operators on both sides: that SQLite's and numpy's operators agree "
    "per catalogued method is property C05; the documented differences (integer / and %, sum/count of all-null groups) are "
    "exactly the places where the two concrete interpretations ThetaSql / Theta differ by design",
]
NOT_PROVEN = [
    "the kernel-checked translation theorem covers every operator except convert_records: table, extend (plain and windowed), project, "
    "select_rows, select/drop/rename/map_columns, order_rows, natural_join (all five SQL types; SQLite's emulated RIGHT / FULL "
    "join anywhere in the pipeline up to row order, FULL under the null-free-keys guard whose necessity is proved = known finding "
    "D19), concat_rows, for every setting of the extend merge (Props/C01core, C04merge, C01joins, C16full, C01all, C16nested). "
    "Standing side conditions: a labelled concat side must not end in a limit-less order_rows (LabelSidesPlain), jointype 'outer' "
    "is not a SQL join type",
    "convert_records (record transforms are abstract in the executor model): oracle only",
    "text rendering / the engine's parser: executed, not modelled",
]
LEVEL_TEXT = ("Kernel-checked: for every pipeline built from every operator except convert_records (joins of all five SQL types, concat_rows, windowed and plain extends with the SQL generator's extend merge on or off, SQLite's emulated RIGHT/FULL joins anywhere in the pipeline up to row order), every requested column set and every environment, the "
              "NearSQL tree the translation builds evaluates (under the modelled SQL engine semantics) to the reference "
              "meaning of the pipeline restricted to the requested columns - column set always, row multiset under C18's scope "
              "(total window orders / clean limit cuts) plus null-free order columns where SQL and Pandas place NULLs "
              "differently (necessity witnesses for both engines), row order after a final order_rows, one row for every "
              "un-grouped project whatever is pruned above it. The three models involved (builders, executor, SQL generator + "
              "engine) are each tied to the real code by differential execution on random pipelines on every run; an oracle "
              "compares Pandas with the PostgreSQL-dialect SQL executed on the stand-in engine. Labelled partial: the observation point 'a real PostgreSQL 16 server' is unreachable here.")
LEVEL_NOTE = ("Trusted: Lean kernel (+leanchecker in the thorough tier); axioms propext/Classical.choice/Quot.sound; the hand-written "
              "models sem / toNearSql / semSql (validated by k4_sem, k5_near, k5_sem on every run); SQLite's evaluator as modelled; "
              "convert_records is outside the present theorem (correspondence + oracle).")
RULE = ("random type-directed pipelines over catalogue methods supported by Pandas and SQLite (pipes.gen_case) on random small "
        "tables with nulls, duplicates, ties and empty tables; each case: real NearSQL structure vs model (k5_near), real SQL "
        "executed on SQLite vs model semantics (k5_sem), Pandas vs model (k4_sem), and oracle_C01 (Pandas result vs SQLite result "
        "with the property's comparison rule); non-trivial = evaluates to at least one row / a non-table NearSQL tree")

def _own_text(oracle_fn):
    """attribute failures on a case whose extend assigns to a column named like the expression's own SQL text (finding
    enc-term-text-equals-name)"""
    from .. import pipes

    def f(case, **opts):
        fs = list(oracle_fn(case, **opts) or [])
        own = any(s.get("call") in ("extend", "project") and any(str(k) == str(v) for k, v in (s.get("ops") or []))
                  for s in pipes.pipe_steps(case["pipe"]))
        if own:
            for x in fs:
                if not (x.get("finding") or x.get("candidate")):
                    x["candidate"] = "enc-term-text-equals-name"
        return fs
    return f



class _Witnesses(OracleOnly):
    """witnesses of listed findings that the models do not exhibit (no model side: judged by the oracle alone)"""
    def gen(self, rng, tier):
        # the design's witnesses (harness/pipe_witnesses.py): each listed finding of this property is met on every run,
        # repaired ones stay in as silent regression cases
        from .. import pipe_witnesses
        for w in pipe_witnesses.WITNESSES:
            c = w[3]
            if w[1] in ("C01", "C02") and isinstance(c, dict) and "pipe" in c and "tables" in c:
                yield {"tables": c["tables"], "pipe": c["pipe"], "meta": {"witness": w[0]}, "_always": True}


SUITES = [
    # the PostgreSQL dialect text executed on the stand-in engine (SQLite 3.40: native RIGHT/FULL JOIN, WITH) vs the model,
    # under every use_with / use_cte_elim / merge combination the dialect allows
    with_oracle(K5SemOpt, _own_text(oracles.oracle_C02), every=1, ignore_kinds=("pandas-raised",), corpus_dir="C02"),
    K5Near(dialects=("postgres",)),
    K4Sem(),
    # the same calls on twin inputs under CTE elimination (what a cache key must tell apart)
    with_oracle(K5Twins, oracles.oracle_C02, name="k5_twins", ignore_kinds=("pandas-raised",)),
    with_oracle(_Witnesses, _own_text(oracles.oracle_C02), name="c02_witnesses", ignore_kinds=("pandas-raised",), corpus_dir="C02"),
]
SUITES[0].n_quick = 200
SUITES[1].n_quick = 200
SUITES[2].n_quick = 120
# thorough tier: about 20 minutes in total (the PostgreSQL-dialect text on the stand-in engine is the slow part)
SUITES[0].n_thorough = 2000
SUITES[1].n_thorough = 3000
SUITES[2].n_thorough = 1500
SUITES[3].n_thorough = 400
