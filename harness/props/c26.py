"""C26 — The builder rejects ill-formed steps when the pipeline is built."""
import ast
import random
import warnings

from .. import pipes
from .. import suites_ops

PROPERTY = "C26"
LEAN_MODULES = ["DAVerif.Props.C26"]
THEOREMS = [
    "DAVerif.C26_reachable_wf",
    "DAVerif.C26_reachable_cols",
    "DAVerif.C26_accept_iff_rules",
    "DAVerif.C26_accept_iff_rulesB",
    "DAVerif.C26_reject_at_build",
    "DAVerif.C26_reject_error_class",
    "DAVerif.C26_build_verdict",
    "DAVerif.C26_build_cols",
    "DAVerif.C26_build_cols_extend",
    "DAVerif.C26_extend_cols_order_witness",
    "DAVerif.C26_eval_never_rule_error",
    "DAVerif.C26_nonaggregating_accepted",
    "DAVerif.C26_accept_iff_strict_partial",
    "DAVerif.C26_G_agg_necessary",
]
ASSUMPTIONS = [
    "expression texts are parsed by the library's own parser before they reach the model (C13's concern); the model's "
    "builder sees the parsed terms",
    "table descriptions have at least one column and no column twice (ViewRepresentation.__init__ asserts both)",
    "pipelines are trees: the same Python node used twice is modelled as two equal subtrees (sharing only matters for SQL)",
    "convert_records steps: only the record map's needed/produced column lists are modelled (C17 owns the transform)",
    "the Lean model of the evaluator has no run-time checks besides 'table present with its declared columns'; that "
    "the real Pandas executor defers no rule check is searched for by the oracle (evaluation of every accepted "
    "pipeline), not proven",
]
NOT_PROVEN = [
    "the stricter reading of 'non-aggregating' (the function must be an aggregation/window function) is not a rule the "
    "library enforces: finding C26-nonaggregating-accepted (theorem C26_nonaggregating_accepted exhibits it)",
    "'nothing deferred to evaluation' for the real Pandas executor is sampled by the oracle, not proven "
    "(the model's evaluator is total by construction: C26_eval_never_rule_error)",
]
LEVEL_TEXT = ("Kernel-checked for every pipeline reachable through the builders and every step with arbitrary arguments: "
              "the builder call (including the extend merge, the elimination of order_rows without limit and the "
              "select_columns collapse through select/drop nodes) succeeds iff every documented rule holds for the "
              "declared columns of the prefix, fails with the error class of the first violated rule, and on success "
              "declares the documented column list; reachable pipelines always declare a non-empty duplicate-free "
              "column list; the model's evaluator returns a table with the declared columns for every environment "
              "that has the tables. (The proofs are about /repo after fix e8da488, found by this property: an "
              "extend(..., partition_by=1) was merged into a preceding plain extend node.)")
LEVEL_NOTE = ("Trusted: Lean kernel; axioms propext/Classical.choice/Quot.sound; the shared hand-written model "
              "Ops/Builder.lean (tied to view_representations.py by the inherited K2 correspondence on every run: "
              "every builder call of every generated pipeline on code and model); harness/extract_tables.py for the "
              "function-name classes.")
RULE = ("pipes.gen_case(fault_rate=0.5): type-directed random pipelines (depth 1..8 quick / 1..14 thorough, 1-3 input "
        "tables with rows) of which half end in exactly one injected rule violation, plus a systematic cross product "
        "of 11 prefixes (plain table; eliminated order_rows; plain extend; extend behind an eliminated order_rows; "
        "drop; select; windowed extend; project; order with limit; select+order; extend partition_by=1) x ~100 "
        "conforming and violating steps of every kind; non-trivial = the case is expressible for the model and has at "
        "least one step")

# ------------------------------------------------------------------------------------------------
# The independent rule checker (plain Python, written from the property text and the builder docstrings;
# it does not import the library's checks nor the Lean model).
# ------------------------------------------------------------------------------------------------

# documented function-name classes (expr_rep.py), copied here on purpose: the oracle must notice if the
# library's sets drift from the documentation
IMPLY_WINDOWED = {
    "all", "any", "bfill", "count", "cumcount", "cummax", "cummin", "cumprod", "cumsum", "ffill", "first", "head",
    "is_monotonic_decreasing", "is_monotonic_increasing", "last", "max", "mean", "median", "min", "ngroup",
    "nlargest", "nsmallest", "nth", "nunique", "ohlc", "pct_change", "rank", "shift", "size", "std", "sum", "tail",
    "unique", "value_counts", "var", "_row_number", "row_number", "_ngroup"}
ORDER_DEPENDENT = {"cumcount", "cummax", "cummin", "cumprod", "cumsum", "shift", "lag", "lead", "_row_number",
                   "row_number"}
REFUSE_ORDER = {"count", "max", "min", "prod", "sum", "std", "var"}
NOT_IN_PROJECT = ORDER_DEPENDENT | {"ngroup", "_ngroup"}
# further documented aggregation / window functions that are not in the implies-windowed class
OTHER_AGGS = {"_size", "_count", "any_value", "prod", "lag", "lead"}
AGG_LIKE = IMPLY_WINDOWED | ORDER_DEPENDENT | OTHER_AGGS
KNOWN_JOIN_TYPES = {"INNER", "LEFT", "RIGHT", "OUTER", "FULL", "CROSS"}

# rule names that the unchanged library is known not to enforce (findings), see finding()
R_NONAGG = "non-aggregating function"
R_NESTED = "aggregate nested in a plain extend expression"
R_SELECT_AGG = "aggregate in select_rows"

_rowwise_cache = []


def rowwise_only():
    """names the library's method catalogue documents as row-wise functions only (class 'e' and no other class)"""
    if not _rowwise_cache:
        import data_algebra.op_catalog as oc
        by = {}
        for _, r in oc.methods_table.iterrows():
            by.setdefault(str(r["op"]), set()).add(str(r["op_class"]))
        _rowwise_cache.append({op for op, cl in by.items() if cl == {"e"} and op not in AGG_LIKE})
    return _rowwise_cache[0]


class Expr:
    """what the rules need to know about one expression: the columns it mentions, whether it is a single function
    application and of what, the kinds of that application's arguments, every function name used below the top"""

    def __init__(self, v):
        self.cols = []
        self.is_call = False
        self.op = None
        self.args = []          # "col:<name>" | "const" | "expr"
        self.inner_fns = []     # function / method names used anywhere except the top application
        self.all_fns = []
        self.operator_top = False   # an operator expression (x + 1, -x, x > 1 ...)
        if not isinstance(v, str):
            return
        txt = v.replace("%+%", "+").replace("%?%", "+").replace("%/%", "/")
        tree = ast.parse(txt.strip(), mode="eval").body
        self._top(tree)

    @staticmethod
    def _const(n):
        if isinstance(n, ast.Constant):
            return True
        if isinstance(n, ast.UnaryOp) and isinstance(n.op, (ast.USub, ast.UAdd)) and isinstance(n.operand, ast.Constant):
            return True
        return False

    def _argkind(self, n):
        if self._const(n):
            return "const"
        if isinstance(n, ast.Name):
            return "col:" + n.id
        return "expr"

    def _top(self, n):
        if isinstance(n, ast.Call):
            self.is_call = True
            if isinstance(n.func, ast.Attribute):
                self.op = n.func.attr
                argn = [n.func.value] + list(n.args)
            elif isinstance(n.func, ast.Name):
                self.op = n.func.id
                argn = list(n.args)
            else:
                self.op = "?"
                argn = list(n.args)
            self.all_fns.append(self.op)
            self.args = [self._argkind(a) for a in argn]
            for a in argn:
                self._walk(a)
        else:
            self.operator_top = isinstance(n, (ast.BinOp, ast.UnaryOp, ast.Compare, ast.BoolOp)) and not self._const(n)
            if self.operator_top:
                if isinstance(n, ast.BinOp):
                    argn = [n.left, n.right]
                elif isinstance(n, ast.UnaryOp):
                    argn = [n.operand]
                elif isinstance(n, ast.Compare):
                    argn = [n.left] + list(n.comparators)
                else:
                    argn = list(n.values)
                self.args = [self._argkind(a) for a in argn]
            self._walk(n)

    def _walk(self, n):
        if isinstance(n, ast.Call):
            if isinstance(n.func, ast.Attribute):
                self.inner_fns.append(n.func.attr)
                self.all_fns.append(n.func.attr)
                self._walk(n.func.value)
            elif isinstance(n.func, ast.Name):
                self.inner_fns.append(n.func.id)
                self.all_fns.append(n.func.id)
            for a in n.args:
                self._walk(a)
            return
        if isinstance(n, ast.Name):
            if n.id not in self.cols:
                self.cols.append(n.id)
            return
        for ch in ast.iter_child_nodes(n):
            self._walk(ch)


def _lst(v):
    if v is None:
        return []
    if isinstance(v, str):
        return [v]
    return list(v)


def _dups(xs):
    return len(xs) != len(set(xs))


def _on_lists(on):
    a, b = [], []
    if on is None:
        return a, b
    if isinstance(on, str):
        return [on], [on]
    for v in on:
        if isinstance(v, str):
            a.append(v)
            b.append(v)
        else:
            a.append(v[0])
            b.append(v[1])
    return a, b


def _assign_rules(cols, ops, bad):
    keys = [k for k, _ in ops]
    ex = [Expr(v) for _, v in ops]
    if _dups(keys):
        bad.append("duplicate assignment keys")
    for (k, _), e in zip(ops, ex):
        for c in e.cols:
            if c not in cols:
                bad.append("unknown column in expression: " + c)
    for (k, _), e in zip(ops, ex):
        for c in e.cols:
            if c != k and c in keys:
                bad.append("column produced and used in the same step: " + c)
    return keys, ex


def _simple_call(e, cols, max_args):
    """one function applied to nothing, or to one column / constant followed by constants"""
    if not e.is_call:
        return False
    if max_args is not None and len(e.args) > max_args:
        return False
    for i, a in enumerate(e.args):
        if i == 0:
            if a == "expr":
                return False
            if a.startswith("col:") and a[4:] not in cols:
                return False
        elif a != "const":
            return False
    return True


def check_step(cols, tabs, step, bcols=None, btabs=None):
    """the documented rules for adding `step` to a prefix that declares `cols` (and whose tables are `tabs`:
    name -> column list).  Returns the list of violated rules ([] = the step must be accepted)."""
    bad = []
    call = step["call"]
    if call == "extend":
        ops = step.get("ops") or []
        if len(ops) == 0:
            return bad                      # nothing to add: returns the pipeline itself
        keys, ex = _assign_rules(cols, ops, bad)
        pb = step.get("partition_by")
        part = [] if (pb is None or pb == 1) else _lst(pb)
        order = _lst(step.get("order_by"))
        reverse = _lst(step.get("reverse"))
        for nm, xs in (("partition_by", part), ("order_by", order), ("reverse", reverse)):
            if _dups(xs):
                bad.append("duplicate name in " + nm)
            if any(c not in cols for c in xs):
                bad.append("unknown column in " + nm)
        if any(k in part for k in keys):
            bad.append("changes a partition column")
        if any(k in order for k in keys):
            bad.append("changes an ordering column")
        if any(c in order for c in part):
            bad.append("partition_by and order_by overlap")
        if any(c not in order for c in reverse):
            bad.append("reverse column not in order_by")
        windowed = (pb == 1) or len(part) > 0 or len(order) > 0 or any(
            (e.is_call and e.op in IMPLY_WINDOWED) for e in ex)
        if windowed:
            for (k, _), e in zip(ops, ex):
                if e.is_call:
                    if not _simple_call(e, cols, None):
                        bad.append("too complex window expression: " + k)
                    elif e.op in rowwise_only():
                        bad.append(R_NONAGG + " in a window: " + str(e.op))
                    if order and e.op in REFUSE_ORDER:
                        bad.append("plain aggregate with order_by: " + str(e.op))
                    if not order and e.op in ORDER_DEPENDENT:
                        bad.append("order-dependent function without order_by: " + str(e.op))
                elif e.operator_top and len(e.args) >= 1 and e.args[0] != "expr" and all(
                        a == "const" for a in e.args[1:]) and all(
                        (not a.startswith("col:")) or a[4:] in cols for a in e.args[:1]):
                    # an operator applied to one column and constants: not an aggregation at all
                    bad.append(R_NONAGG + " in a window: operator expression " + k)
                else:
                    bad.append("non-aggregating or too complex window expression: " + k)
        else:
            for (k, _), e in zip(ops, ex):
                if any(f in AGG_LIKE for f in e.all_fns):
                    bad.append(R_NESTED + ": " + k)
        return bad
    if call == "project":
        ops = step.get("ops") or []
        keys, ex = _assign_rules(cols, ops, bad)
        group = _lst(step.get("group_by"))
        if _dups(group):
            bad.append("duplicate name in group_by")
        if any(c not in cols for c in group):
            bad.append("unknown column in group_by")
        if not ops and not group:
            bad.append("project needs ops or group_by")
        if any(k in group for k in keys):
            bad.append("changes a grouping column")
        for (k, _), e in zip(ops, ex):
            if not _simple_call(e, cols, 1):
                bad.append("non-aggregating or too complex project expression: " + k)
            elif e.op in NOT_IN_PROJECT:
                bad.append("function not allowed in project: " + str(e.op))
            elif e.op in rowwise_only():
                bad.append(R_NONAGG + " in project: " + str(e.op))
        return bad
    if call == "select_rows":
        e = Expr(step.get("expr"))
        for c in e.cols:
            if c not in cols:
                bad.append("unknown column in expression: " + c)
        if any(f in AGG_LIKE for f in e.all_fns):
            bad.append(R_SELECT_AGG)
        return bad
    if call == "select_columns":
        cs = _lst(step["cols"])
        if not cs:
            bad.append("must select at least one column")
        if any(c not in cols for c in cs):
            bad.append("unknown column selected")
        if _dups(cs):
            bad.append("column selected twice")
        return bad
    if call == "drop_columns":
        cs = _lst(step["cols"])
        if not cs:
            return bad
        if any(c not in cols for c in cs):
            bad.append("unknown column dropped")
        if all(c in cs for c in cols):
            bad.append("drops all columns")
        return bad
    if call == "order_rows":
        cs = _lst(step["cols"])
        rev = _lst(step.get("reverse"))
        if not cs and step.get("limit") is None:
            return bad
        if any(c not in cols for c in cs):
            bad.append("unknown order column")
        if any(c not in cs for c in rev):
            bad.append("reverse column not in order columns")
        return bad
    if call == "rename_columns":
        m = step["map"]
        if not m:
            return bad
        news = [k for k, _ in m]
        olds = [v for _, v in m]
        if any(o not in cols for o in olds):
            bad.append("unknown column renamed")
        if any((n in cols) and (n not in olds) for n in news):
            bad.append("new name collides with a column that stays")
        if _dups(result_cols(cols, step)):
            bad.append("renaming produces a duplicate column")
        return bad
    if call == "map_columns":
        m = step["map"]
        if not m:
            return bad
        olds = [k for k, _ in m]
        news = [v for _, v in m if v is not None]
        if any(o not in cols for o in olds):
            bad.append("unknown column mapped")
        if any((n in cols) and (n not in olds) for n in news):
            bad.append("new name collides with a column that stays")
        rc = result_cols(cols, step)
        if not rc:
            bad.append("drops all columns")
        if _dups(rc):
            bad.append("mapping produces a duplicate column")
        return bad
    if call == "natural_join":
        on_a, on_b = _on_lists(step.get("on"))
        for n, cs in (btabs or {}).items():
            if n in tabs and list(tabs[n]) != list(cs):
                bad.append("two different descriptions of table " + n)
        if any(c not in cols for c in on_a):
            bad.append("left table misses join keys")
        if any(c not in bcols for c in on_b):
            bad.append("right table misses join keys")
        if step.get("check"):
            both = set(on_a) & set(on_b)
            if any((c in bcols) and (c not in both) for c in cols):
                bad.append("common column that is not a join key (check requested)")
        jt = str(step["jointype"]).upper()
        if jt not in KNOWN_JOIN_TYPES:
            bad.append("unknown join type")
        if jt == "CROSS" and on_a:
            bad.append("CROSS join with keys")
        return bad
    if call == "concat_rows":
        for n, cs in (btabs or {}).items():
            if n in tabs and list(tabs[n]) != list(cs):
                bad.append("two different descriptions of table " + n)
        if set(cols) != set(bcols):
            bad.append("concatenated tables have different columns")
        if step.get("id_column") is not None and step["id_column"] in cols:
            bad.append("id_column is an input column")
        return bad
    raise ValueError("no rules for " + call)


def result_cols(cols, step, bcols=None):
    """the documented column list of the node a successful step creates"""
    call = step["call"]
    if call == "extend":
        out = list(cols)
        for k, _ in (step.get("ops") or []):
            if k not in out:
                out.append(k)
        return out
    if call == "project":
        out = _lst(step.get("group_by"))
        for k, _ in (step.get("ops") or []):
            if k not in out:
                out.append(k)
        return out
    if call in ("select_rows", "order_rows"):
        return list(cols)
    if call == "select_columns":
        return _lst(step["cols"])
    if call == "drop_columns":
        d = _lst(step["cols"])
        return [c for c in cols if c not in d]
    if call == "rename_columns":
        rev = {v: k for k, v in step["map"]}
        return [rev.get(c, c) for c in cols]
    if call == "map_columns":
        m = {k: v for k, v in step["map"]}
        return [(m[c] if c in m else c) for c in cols if not (c in m and m[c] is None)]
    if call == "natural_join":
        out = list(cols) + [c for c in bcols if c not in cols]
        if set(out) == set(cols):
            return list(cols)
        if set(out) == set(bcols):
            return list(bcols)
        return out
    if call == "concat_rows":
        return list(cols) + ([step["id_column"]] if step.get("id_column") is not None else [])
    raise ValueError("no columns for " + call)


class Invalid(Exception):
    """a sub-pipeline (the b of a join / concat) is itself ill-formed: the case says nothing about the step"""


def pipe_cols(pipe, tables, defs):
    """declared columns and table descriptions of a (valid) sub-pipeline, by the documented column lists"""
    if "ref" in pipe and "steps" not in pipe and "table" not in pipe and "src" not in pipe:
        if pipe["ref"] not in defs:
            raise Invalid("unknown ref")
        return defs[pipe["ref"]]
    if "table" in pipe:
        cols = list(tables[pipe["table"]]["cols"])
        tabs = {pipe["table"]: list(cols)}
    else:
        cols, tabs = pipe_cols(pipe["src"], tables, defs)
        tabs = dict(tabs)
    for s in pipe.get("steps", []):
        bc = bt = None
        if s["call"] in ("natural_join", "concat_rows"):
            bc, bt = pipe_cols(s["b"], tables, defs)
        if s["call"] == "convert_records":
            raise Invalid("convert_records")
        if check_step(cols, tabs, s, bc, bt):
            raise Invalid("invalid step in sub-pipeline")
        cols = result_cols(cols, s, bc)
        if bt:
            tabs.update(bt)
    if "def" in pipe:
        defs[pipe["def"]] = (list(cols), dict(tabs))
    return cols, tabs


# evaluation errors that mean "a construction rule was checked only now"
_RULE_VALUE_ERRORS = ("not a valid function name", "wasn't keyed by group_by", "missing required columns",
                      "Missing column groups", "opk must be a ColumnReference or Value",
                      "unexpected number of arguments", "unknown column")


def rule_type_error(exc):
    name = type(exc).__name__
    msg = str(exc)
    if name == "KeyError":
        # a null in a boolean mask reaches pandas' label lookup: "None of [Index([nan], ...)] are in the [index]" is a
        # run-time data problem (select_rows on a nullable bool), not a construction rule
        return not any(p in msg for p in ("[nan", "nan]", "NaN", "<NA>", "None]"))
    if name in ("NameError", "AssertionError"):
        return True
    if name == "ValueError":
        return any(p in msg for p in _RULE_VALUE_ERRORS)
    if name == "AttributeError":
        return "has no attribute" in msg and "GroupBy" in msg
    return False


# ------------------------------------------------------------------------------------------------
# systematic stream: prefixes the builder simplifies x steps of every kind, conforming and violating
# ------------------------------------------------------------------------------------------------

def _sys_tables():
    d = pipes.mk_table(["g", "x", "y", "i"], ["str", "int", "float", "int"],
                       [["a", 1, 0.5, 1], ["b", 2, 1.5, 2], ["a", 3, 2.5, 3], ["b", 5, -0.5, 4]])
    e = pipes.mk_table(["g", "x", "z"], ["str", "int", "float"], [["a", 1, 1.0], ["c", 2, 2.0]])
    f = pipes.mk_table(["x", "g", "i", "y"], ["int", "str", "int", "float"], [[7, "c", 9, 3.5]])
    return {"d": d, "e": e, "f": f}


def _ext(ops, partition_by=None, order_by=None, reverse=None):
    return {"call": "extend", "ops": [list(o) for o in ops], "partition_by": partition_by, "order_by": order_by,
            "reverse": reverse}


def _proj(ops, group_by):
    return {"call": "project", "ops": [list(o) for o in ops], "group_by": group_by}


def _join(b, on, jt, check=False):
    return {"call": "natural_join", "b": b, "on": on, "jointype": jt, "check": check}


def _concat(b, idc):
    return {"call": "concat_rows", "b": b, "id_column": idc, "a_name": "a", "b_name": "b"}


SYS_PREFIXES = {
    "table": [],
    "order_eliminated": [{"call": "order_rows", "cols": ["g"], "reverse": None, "limit": None}],
    "plain_extend": [_ext([["a", "x + 1"]])],
    "plain_extend_then_order": [_ext([["a", "x + y"]]),
                                {"call": "order_rows", "cols": ["i"], "reverse": None, "limit": None}],
    "drop": [{"call": "drop_columns", "cols": ["y"]}],
    "select": [{"call": "select_columns", "cols": ["g", "x", "i"]}],
    "windowed_extend": [_ext([["s", "x.sum()"]], partition_by=["g"])],
    "project": [_proj([["x", "x.sum()"], ["i", "i.max()"]], ["g"])],
    "order_limit": [{"call": "order_rows", "cols": ["i"], "reverse": None, "limit": 2}],
    "select_then_order": [{"call": "select_columns", "cols": ["g", "x", "y", "i"]},
                          {"call": "order_rows", "cols": ["g"], "reverse": ["g"], "limit": None}],
    "window_partition_one": [_ext([["n0", "_size()"]], partition_by=1)],
}

_E = {"table": "e", "steps": []}
_F = {"table": "f", "steps": []}
_D = {"table": "d", "steps": []}
_GXI = {"table": "d", "steps": [{"call": "select_columns", "cols": ["g", "x", "i"]}]}

SYS_STEPS = [
    _ext([["b", "x + 1"]]), _ext([["b", "zz + 1"]]), _ext([["b", "y * 2"]]), _ext([["x", "x + 1"]]),
    _ext([["b", "x + 1"], ["b", "x + 2"]]), _ext([["b", "x + 1"], ["x", "2"]]), _ext([["a", "x + 2"]]),
    _ext([["b", "a + 1"]]), _ext([["b", "x + 1"], ["c", "i * 2"]]), _ext([], partition_by=["zz"]),
    _ext([["n", "_size()"]], partition_by=["g"]), _ext([["n", "_size()"]], partition_by=1),
    _ext([["n", "_count()"]], partition_by=1), _ext([["n", "x.sum()"]], partition_by=1),
    _ext([["n", "x.sum()"]]), _ext([["n", "x.sum()"]], partition_by=["g"]),
    _ext([["n", "x.sum()"]], partition_by=["zz"]), _ext([["n", "x.sum()"]], partition_by=["g", "g"]),
    _ext([["g", "_size()"]], partition_by=["g"]),
    _ext([["n", "_row_number()"]], partition_by=["g"], order_by=["i"]),
    _ext([["n", "_row_number()"]], partition_by=["g"]), _ext([["n", "x.sum()"]], partition_by=1, order_by=["i"]),
    _ext([["n", "x.cumsum()"]], partition_by=1, order_by=["i"], reverse=["i"]),
    _ext([["n", "x.cumsum()"]], partition_by=1, order_by=["i"], reverse=["g"]),
    _ext([["n", "x.cumsum()"]], partition_by=1, order_by=["i", "i"]),
    _ext([["n", "_row_number()"]], partition_by=["g"], order_by=["g"]),
    _ext([["i", "_row_number()"]], partition_by=1, order_by=["i"]),
    _ext([["n", "_row_number()"]], partition_by=1, order_by=["zz"]),
    _ext([["n", "x.maximum(i)"]], partition_by=["g"]), _ext([["n", "(x + i).sum()"]], partition_by=["g"]),
    _ext([["n", "x.sum() + 1"]], partition_by=["g"]), _ext([["n", "x.sum() + 1"]]),
    _ext([["n", "x - x.mean()"]]), _ext([["n", "x.abs()"]], partition_by=["g"]),
    _ext([["n", "x + 1"]], partition_by=["g"]), _ext([["n", "x"]], partition_by=["g"]),
    _ext([["n", "1"]], partition_by=["g"]), _ext([["n", "x.shift(1)"]], partition_by=1, order_by=["i"]),
    _ext([["n", "x.shift(-1)"]], partition_by=["g"], order_by=["i"]),
    _ext([["n", "x.max()"], ["m", "x + 1"]]), _ext([["n", "zz.sum()"]], partition_by=["g"]),
    _ext([["n", "(1).sum()"]], partition_by=["g"]),
    _proj([["s", "x.sum()"]], ["g"]), _proj([["s", "x.sum()"]], []), _proj([["s", "x.sum()"]], ["zz"]),
    _proj([["s", "x.sum()"]], ["g", "g"]), _proj([], []), _proj([], ["g"]), _proj([["g", "x.sum()"]], ["g"]),
    _proj([["s", "x + 1"]], ["g"]), _proj([["s", "x"]], ["g"]), _proj([["s", "1"]], ["g"]),
    _proj([["s", "x.cumsum()"]], ["g"]), _proj([["s", "_row_number()"]], ["g"]), _proj([["s", "x.abs()"]], ["g"]),
    _proj([["s", "(x + 1).sum()"]], ["g"]), _proj([["s", "x.maximum(i)"]], ["g"]), _proj([["s", "zz.sum()"]], ["g"]),
    _proj([["s", "x.sum()"], ["s", "x.max()"]], ["g"]), _proj([["s", "_size()"]], ["g", "x"]),
    _proj([["s", "x.sum() + 1"]], ["g"]), _proj([["x", "x.max()"], ["m", "x.min()"]], ["g"]),
    {"call": "select_rows", "expr": "x > 1"}, {"call": "select_rows", "expr": "zz > 1"},
    {"call": "select_rows", "expr": "x.sum() > 1"}, {"call": "select_rows", "expr": "y > 0 and x > 1"},
    {"call": "select_columns", "cols": ["g"]}, {"call": "select_columns", "cols": ["g", "zz"]},
    {"call": "select_columns", "cols": []}, {"call": "select_columns", "cols": ["g", "g"]},
    {"call": "select_columns", "cols": ["y"]}, {"call": "select_columns", "cols": ["x", "g"]},
    {"call": "drop_columns", "cols": ["x"]}, {"call": "drop_columns", "cols": ["zz"]},
    {"call": "drop_columns", "cols": "__ALL__"}, {"call": "drop_columns", "cols": []},
    {"call": "drop_columns", "cols": ["y"]}, {"call": "drop_columns", "cols": ["x", "x"]},
    {"call": "order_rows", "cols": ["g"], "reverse": None, "limit": None},
    {"call": "order_rows", "cols": ["zz"], "reverse": None, "limit": None},
    {"call": "order_rows", "cols": ["g"], "reverse": ["x"], "limit": None},
    {"call": "order_rows", "cols": [], "reverse": ["zz"], "limit": None},
    {"call": "order_rows", "cols": [], "reverse": None, "limit": 2},
    {"call": "order_rows", "cols": ["g", "g"], "reverse": ["g"], "limit": 3},
    {"call": "rename_columns", "map": [["n", "x"]]}, {"call": "rename_columns", "map": [["n", "zz"]]},
    {"call": "rename_columns", "map": [["g", "x"]]}, {"call": "rename_columns", "map": [["g", "x"], ["x", "g"]]},
    {"call": "rename_columns", "map": []}, {"call": "rename_columns", "map": [["n", "x"], ["m", "x"]]},
    {"call": "map_columns", "map": [["x", "n"]]}, {"call": "map_columns", "map": [["zz", "n"]]},
    {"call": "map_columns", "map": [["x", "g"]]}, {"call": "map_columns", "map": [["x", None]]},
    {"call": "map_columns", "map": "__ALLNONE__"}, {"call": "map_columns", "map": [["x", "g"], ["g", None]]},
    {"call": "map_columns", "map": [["x", "n"], ["g", "n"]]},
    _join(_E, ["g"], "inner"), _join(_E, ["g"], "inner", True), _join(_E, ["g", "x"], "inner", True),
    _join(_E, ["zz"], "left"), _join(_E, [["g", "zz"]], "left"), _join(_E, [["zz", "g"]], "left"),
    _join(_E, ["g"], "cross"), _join(_E, [], "cross"), _join(_E, ["g"], "semi"), _join(_E, ["g"], "outer"),
    _join(_E, ["g"], "INNER"), _join(_E, [["g", "g"], ["x", "x"]], "full", True), _join(_D, ["i"], "left"),
    _join(_D, ["i"], "inner", True), _join(_E, ["z"], "right"),
    # differently named key pairs whose names are columns of BOTH sides (self-join style parent == id): with the check
    # requested such a common column is covered only when it is a key on both sides
    _join(_GXI, ["g", ["x", "i"]], "inner", True), _join(_GXI, ["g", ["x", "i"]], "inner", False),
    _join(_GXI, [["x", "i"]], "left", True), _join(_GXI, ["g", ["x", "i"], ["i", "x"]], "left", True),
    _join(_GXI, ["g", "x", "i"], "left", True), _join(_E, [["x", "g"]], "inner", True),
    _concat(_F, None), _concat(_F, "src"), _concat(_F, "g"), _concat(_E, None), _concat(_D, "source_name"),
    _concat({"table": "f", "steps": [{"call": "drop_columns", "cols": ["y"]}]}, None),
]


def systematic_cases():
    tables = _sys_tables()
    out = []
    for pname, prefix in SYS_PREFIXES.items():
        cols = list(tables["d"]["cols"])
        for s in prefix:
            cols = result_cols(cols, s)
        for k, st in enumerate(SYS_STEPS):
            s = dict(st)
            if s.get("cols") == "__ALL__":
                s["cols"] = list(cols)
            if s.get("map") == "__ALLNONE__":
                s["map"] = [[c, None] for c in cols]
            out.append({"tables": tables, "pipe": {"table": "d", "steps": list(prefix) + [s]},
                        "meta": {"fault": None, "systematic": "%s/%d" % (pname, k)}})
    return out


# ------------------------------------------------------------------------------------------------
# the suite
# ------------------------------------------------------------------------------------------------

class Rules(suites_ops.K2Build):
    """K2 correspondence (inherited: every builder call on the library and on the model) + the C26 oracle"""
    name = "c26_rules"
    driver_suite = "k2_build"
    n_quick, n_thorough = 1200, 20000
    gen_opts = dict(fault_rate=0.5, convert_records=0.0)

    def __init__(self, **opts):
        super().__init__(**opts)
        self.stats = {}

    def _stat(self, k):
        self.stats[k] = self.stats.get(k, 0) + 1
        self.distribution["oracle:" + k] = self.stats[k]

    def gen(self, rng, tier):
        for c in systematic_cases():
            self.distribution["systematic"] = self.distribution.get("systematic", 0) + 1
            yield c
        n = self.n_quick if tier == "quick" else self.n_thorough
        for _ in range(n):
            sub = random.Random(rng.getrandbits(64))
            try:
                case = pipes.gen_case(sub, tier, **self.opts)
            except Exception as e:  # noqa: BLE001 - a generator failure (pipes.py is a snapshot) loses one case only
                k = "generator-error:" + type(e).__name__
                self.distribution[k] = self.distribution.get(k, 0) + 1
                continue
            for c in case["meta"].get("calls", []):
                self.distribution[c] = self.distribution.get(c, 0) + 1
            yield {"tables": case["tables"], "pipe": case["pipe"], "meta": {"fault": case["meta"].get("fault")}}

    def corpus(self):
        import glob
        import json
        import os
        out = []
        d = os.path.join(os.path.dirname(os.path.dirname(os.path.dirname(os.path.abspath(__file__)))), "corpus", "C26")
        for p in sorted(glob.glob(os.path.join(d, "*.json"))):
            out.append(json.load(open(p))["case"])
        return out

    # ---- the oracle ----------------------------------------------------------------------------
    def oracle(self, case, real_out):
        if not isinstance(real_out, dict):
            return "harness: " + str(real_out)[:200]
        if real_out.get("skip"):
            return None
        if "harness_exc" in real_out:
            return "harness: " + real_out["harness_exc"]
        tname, steps = suites_ops._flatten_main(case["pipe"])
        if tname is None:
            return None
        tables = case["tables"]
        cols = list(tables[tname]["cols"])
        tabs = {tname: list(cols)}
        defs = {}
        failed_at = real_out.get("at") if "err" in real_out else None
        i = -1
        order_known = True
        for s in steps:
            if s["call"] == "_def":
                defs[s["_def_after"]] = (list(cols), dict(tabs))
                continue
            i += 1
            if s["call"] == "convert_records":
                return None
            bc = bt = None
            if s["call"] in ("natural_join", "concat_rows"):
                try:
                    bc, bt = pipe_cols(s["b"], tables, defs)
                except Invalid:
                    self._stat("b-side-invalid")
                    return None
            bad = check_step(cols, tabs, s, bc, bt)
            if failed_at is not None and i == failed_at:
                if not bad:
                    return ("accept: step %d (%s) obeys every documented rule for columns %s but the builder raised %s"
                            % (i, s["call"], cols, real_out["err"]))
                self._stat("rejected-as-required")
                return None
            if bad:
                return ("reject: step %d (%s) violates [%s] for columns %s but the builder accepted it"
                        % (i, s["call"], "; ".join(bad[:3]), cols))
            if s["call"] == "extend" and any(k in cols for k, _ in (s.get("ops") or [])):
                order_known = False          # a merge may move a re-assigned new column (C26_build_cols_extend)
            cols = result_cols(cols, s, bc)
            if bt:
                tabs.update(bt)
            if "_def_after" in s:
                defs[s["_def_after"]] = (list(cols), dict(tabs))
        # every step accepted by the library and by the rules
        got = real_out["ok"]["column_names"]
        if len(got) != len(set(got)) or not got:
            return "cols: accepted pipeline declares %s" % got
        if set(got) != set(cols) or (order_known and list(got) != list(cols)):
            return "cols: accepted pipeline declares %s, the documented column list is %s" % (got, cols)
        # nothing may be left to evaluation
        try:
            with warnings.catch_warnings():
                warnings.simplefilter("ignore")
                ops = pipes.build(case)
                # rule errors do not depend on the amount of data: two rows per table keep nested joins small
                small = {n: dict(t, rows=t["rows"][:2]) for n, t in tables.items()}
                frames = pipes.tables_to_pandas(small)
                ops.eval(frames)
            self._stat("accepted-and-evaluated")
        except Exception as e:  # noqa: BLE001 - every exception of the executor is an outcome
            if rule_type_error(e):
                return "deferred: every step was accepted but evaluation raised %s: %s" % (
                    type(e).__name__, str(e).replace("\n", " ")[:160])
            self._stat("runtime-error-ignored:" + type(e).__name__)
        return None

    # ---- known findings --------------------------------------------------------------------------
    def finding(self, case, real_out, why):
        if why.startswith("reject:"):
            if R_NONAGG in why:
                return "C26-nonaggregating-accepted"
            if R_NESTED in why or R_SELECT_AGG in why:
                return "C26-nested-aggregate-accepted"
            return None
        return None

    def nontrivial(self, case, real_out):
        if isinstance(real_out, dict) and real_out.get("skip"):
            return False
        _, steps = suites_ops._flatten_main(case["pipe"])
        return bool(steps)

    def shrink(self, case):
        for c in pipes.shrink_case(case):
            yield {"tables": c["tables"], "pipe": c["pipe"], "meta": {"fault": (case.get("meta") or {}).get("fault")}}


SUITES = [Rules()]
