"""C03 — Polars executor agrees with Pandas whenever it returns a result."""
import json
import os
import random
import time
import warnings

from .. import modeltree as mt
from .. import oracles
from .. import pipes
from ..propkit import OracleOnly, with_oracle, _sig
from ..suites_ops import K4Sem

PROPERTY = "C03"
LEAN_MODULES = ["DAVerif.Props.C03"]
THEOREMS = ["DAVerif." + t for t in (
    # the property
    "C03_polars_sound_partial", "C03_polars_sound_strong", "C03_polars_sound_concrete", "C03_final_order",
    "C03_thetaPl_agrees", "C03_fixed_guards",
    # per-step lemmas
    "pl_extend_plain_sound", "pl_extend_window_sound", "pl_project_sound", "pl_select_rows_sound", "pl_order_sound",
    "pl_join_inner_left_sound", "pl_right_as_left_sound", "pl_join_full_sound", "pl_join_sound", "pl_concat_sound",
    "joinCore_rows", "core_row",
    # steps that raise
    "C03_cross_raises", "C03_removed_api_raises",
    # every guard is necessary (counterexample in the model, confirmed on the real code by corpus/C03)
    "C03_D18_necessary", "C03_D20_necessary", "C03_D21_necessary", "C03_D21_final_necessary", "C03_D27_necessary",
    "C03_N1_necessary", "C03_N6_necessary", "C03_N12_necessary", "C03_emptyProject_necessary",
    "C03_firstLast_necessary", "C03_anyValue_scope_necessary")]
ASSUMPTIONS = [
    "the Polars API (join kinds / suffixing / no key coalescing for full joins, group_by keeping a null-key group, sort "
    "null placement, with_columns / select / filter / concat, over(partition), max_horizontal / min_horizontal skipping "
    "nulls, three-valued comparison and Kleene logic, and the table of methods that raise on Polars 1.44) is ASSUMED as "
    "written in lean/DAVerif/Prim/Polars.lean; it is validated by suite k6_polars on every run, a Polars upgrade changes it",
    "the Pandas executor is the shared model `sem SemCfg.pandas` (lean/DAVerif/Sem/Eval.lean), tied to pandas_base.py by "
    "suite k4_sem on every run",
    "frames are untyped in the model: a Polars raise caused by dtypes (schema mismatch in concat, is_nan on a string "
    "column, literal-only horizontal reductions) is not predicted; C03 accepts every raise, the correspondence accepts "
    "'model returns, Polars raises a schema/dtype error' and counts it (coverage.suites.k6_polars.dtype_raises)",
    "window orders are total within each partition and a limit does not cut a tie (scope of C01/C18, hypothesis `Scope`); "
    "aggregates used in unordered windows and projects depend only on the multiset of their arguments (law on the "
    "interpretation, as in C18)",
    "any_value is only applied to columns that are constant within each group (Appendix B; guard any_value_nonconst)",
    "scalar function values outside the listed deviations (arithmetic, rounding, coalesce, if_else, mapv ...) are "
    "computed alike by Polars and numpy: hypothesis PlAgree of the theorem, proved for the concrete interpretations "
    "ThetaPl / Theta (C03_thetaPl_agrees) and sampled by k6_polars",
]
NOT_PROVEN = [
    "convert_records on Polars (C17 owns the record transforms; the model takes them as a parameter)",
    "transcendental functions, std, date functions: outside the model's symbol set (oracle only)",
    "dtype-dependent raises of Polars (oracle accepts a raise)",
]
LEVEL_TEXT = ("Kernel-checked for every pipeline, every environment and every pair of interpretations that agree outside "
              "the listed deviations: whenever the model of the Polars executor (semPl: polars_model.py step by step over "
              "the assumed Polars primitives) returns a table and no guard is violated, the model of the Pandas executor "
              "returns a table with the same columns and the same multiset of rows (and the same row list after a final "
              "total order_rows). Each guard is a decidable predicate with a necessity witness proved in Lean and "
              "confirmed on the real code. The models are tied to the real executors by differential execution "
              "(k6_polars on eager and lazy frames: result-or-raise must match; k4_sem for Pandas).")
LEVEL_NOTE = ("Trusted: Lean kernel; axioms propext/Classical.choice/Quot.sound; Prim/Polars.lean (assumed Polars 1.44 "
              "API); the shared executor model sem; both validated by correspondence on every run (bounded by generator "
              "quality). Frames are untyped in the model.")
RULE = ("pipes.gen_case (K4Sem options plus nullable window / limit order columns, a few stored comparisons over nullable "
        "operands, rounding, modulo; cross joins and windows over the removed cumulative API thinned to 35 % because they "
        "always raise; at most 2 joins per pipeline, thorough tier <= 10 input rows and depth <= 11 so that intermediate "
        "tables stay small; results of more than 1500 rows or Polars runs slower than 3 s are skipped and counted) on "
        "random small tables with nulls; each case is evaluated by the real Polars executor on eager AND lazy frames and "
        "by semPl (result-or-raise and the table must match), and judged by oracle_C03 (Polars vs Pandas whenever Polars "
        "returns); the 12 corpus witnesses run first; non-trivial = Polars returns at least one row")


# ------------------------------------------------------------------------------------------------
# which variant of polars_model.py is in $VERIF_REPO?  (behavioural probes of the four small fixes)
# ------------------------------------------------------------------------------------------------

T = pipes.mk_table
_PROBES = {
    "max_propagates_null": ({"tables": {"d": T(["j", "k"], ["int", "int"], [[1, None]])},
                             "pipe": {"table": "d", "steps": [{"call": "extend", "ops": [["m", "j.maximum(k)"]],
                                                               "partition_by": None, "order_by": None, "reverse": None}]}},
                            lambda rows: rows[0][2] is None),
    "nunique_drops_null": ({"tables": {"d": T(["g", "x"], ["str", "int"], [["a", None], ["a", 1]])},
                            "pipe": {"table": "d", "steps": [{"call": "project", "ops": [["n", "x.nunique()"]],
                                                              "group_by": ["g"]}]}},
                           lambda rows: pipes.val_num(rows[0][1]) == 1.0),
    "full_coalesce_keys": ({"tables": {"d": T(["k", "a"], ["int", "int"], [[1, 1]]),
                                       "e": T(["k", "b"], ["int", "int"], [[2, 2]])},
                            "pipe": {"table": "d", "steps": [{"call": "natural_join", "b": {"table": "e", "steps": []},
                                                              "on": ["k"], "jointype": "full", "check": False}]}},
                           lambda rows: all(r[0] is not None for r in rows)),
    "nulls_last": ({"tables": {"d": T(["k", "i"], ["int", "int"], [[None, 2], [1, 1]])},
                    "pipe": {"table": "d", "steps": [{"call": "order_rows", "cols": ["k"], "reverse": None, "limit": None}]}},
                   lambda rows: rows[-1][0] is None),
}
_cfg_cache = {}


def detect_cfg():
    """{flag: bool}: True = the behaviour after the corresponding fix.  VERIF_C03_CFG=orig|fixed overrides."""
    if "cfg" in _cfg_cache:
        return _cfg_cache["cfg"]
    forced = os.environ.get("VERIF_C03_CFG")
    if forced in ("orig", "fixed"):
        cfg = {k: forced == "fixed" for k in _PROBES}
    else:
        cfg = {}
        for k, (case, pred) in _PROBES.items():
            try:
                with warnings.catch_warnings():
                    warnings.simplefilter("ignore")
                    out = pipes.run_polars(pipes.build(case), case["tables"], lazy=False)
                cfg[k] = bool(pred(out["ok"]["rows"]))
            except Exception:
                cfg[k] = True
    _cfg_cache["cfg"] = cfg
    return cfg


# ------------------------------------------------------------------------------------------------
# the correspondence suite
# ------------------------------------------------------------------------------------------------

# Polars raises that come from dtypes / the optimizer, which the untyped model does not predict
DTYPE_ERRORS = {"InvalidOperationError", "SchemaError", "ComputeError", "ShapeError"}
ALWAYS_RAISE_FNS = (".cumsum(", ".cummax(", ".cummin(", ".cumprod(", ".cumcount(", "_row_number(", "_count(", ".trimstr(")

# guard (Pl.GuardId.toStr in lean/DAVerif/Spec/Polars.lean) -> finding id in known_findings.json (None = scope)
GUARD_FINDING = {
    "null_keys": "D18-pandas-null-keys-match",
    "null_compare": "N1-pandas-comparison-of-null-is-false",
    "max_null": "D27-polars-maximum-ignores-null",
    "full_join_keys": "D20-polars-full-join-keys",
    "order_null_limit": "D21-order-null-placement",
    "order_null_final": "D21-order-null-placement",
    "window_order_null": "N12-window-order-null-placement",
    "nunique_null": "N6-polars-nunique-counts-null",
    "empty_project": "C03-polars-empty-project-all-null",
    "first_last_null": "C03-polars-first-last-keep-null",
    "any_value_nonconst": None,
    "kinds": None,
}
# oracle guard tag (oracles.compute_guards) -> finding, in attribution order, for cases outside the model fragment
TAG_FINDING = [("minmax_null", "D27-polars-maximum-ignores-null"), ("polars_full_join", "D20-polars-full-join-keys"),
               ("nunique_null", "N6-polars-nunique-counts-null"), ("order_null", "D21-order-null-placement"),
               ("window_order_null", "N12-window-order-null-placement"),
               ("null_join_keys_both", "D18-pandas-null-keys-match"),
               ("null_compare", "N1-pandas-comparison-of-null-is-false")]
# findings that exist only while the corresponding fix is not in the tree (flag of detect_cfg)
FIXED_BY = {"D27-polars-maximum-ignores-null": "max_propagates_null", "D20-polars-full-join-keys": "full_coalesce_keys",
            "N6-polars-nunique-counts-null": "nunique_drops_null", "D21-order-null-placement": "nulls_last",
            "N12-window-order-null-placement": "nulls_last"}
PRIORITY = ["max_null", "full_join_keys", "nunique_null", "order_null_limit", "order_null_final", "window_order_null",
            "empty_project", "first_last_null", "null_keys", "null_compare"]


def _gen_case(rng, tier, opts):
    """one draw of the shared generator; a draw on which the generator itself trips (rare IndexError in
    pipes.step_natural_join when no fresh column name is left) is discarded"""
    try:
        return pipes.gen_case(random.Random(rng.getrandbits(64)), tier, **opts)
    except IndexError:
        return None


def _always_raises(case):
    txt = json.dumps(case["pipe"])
    return '"cross"' in txt or any(f in txt for f in ALWAYS_RAISE_FNS)


class K6Polars(K4Sem):
    """real `ops.eval` on Polars eager and lazy frames vs `semPl` with the concrete interpretation ThetaPl"""
    name = "k6_polars"
    n_quick, n_thorough = 240, 3000
    keep_raising = 0.35
    # bounds that keep every intermediate table small (a pipeline of k joins on low-cardinality keys over n-row tables
    # reaches n^(k+1) rows; outcomes are JSON tables held by the framework until the suite is compared)
    max_joins = 2
    max_rows_thorough = 10
    max_depth_thorough = 11
    max_result_rows = 1500   # a larger result is skipped on all three sides (counted)
    slow_s = 3.0             # likewise a case whose Polars evaluation takes longer
    # K4Sem's options plus the inputs on which the Polars deviations show: nullable window / limit order columns,
    # a few stored comparisons over nullable operands, rounding and modulo
    gen_opts = dict(K4Sem.gen_opts, null_order_keys=0.15, limit_null_order=0.1, null_cmp=0.03, str_order_cmp=0.05,
                    round_ops=0.02, mod_ops=0.01)

    def __init__(self, **opts):
        super().__init__(**opts)
        self.cfg = detect_cfg()
        self.polars_out = {}
        self.oracle_tags = {}
        self.guards = {}
        self.slow = set()
        self.raised = set()
        self.agreed = {}
        self.dtype_raises = 0
        self.dtype_classes = {}
        self.real_raises = 0
        self.eager_lazy_differ = 0

    def gen(self, rng, tier):
        n = self.n_quick if tier == "quick" else self.n_thorough
        opts = dict(self.opts)
        if tier != "quick":
            opts.update(max_rows=self.max_rows_thorough, max_depth=self.max_depth_thorough)
        k = 0
        while k < n:
            case = _gen_case(rng, tier, opts)
            if case is None:
                continue
            if _always_raises(case) and rng.random() > self.keep_raising:
                continue
            if json.dumps(case["pipe"]).count('"natural_join"') > self.max_joins:
                continue    # repeated joins on low-cardinality keys blow intermediate tables up (10^5.. rows)
            k += 1
            for c in case["meta"].get("calls", []):
                self.distribution[c] = self.distribution.get(c, 0) + 1
            yield {"tables": case["tables"], "pipe": case["pipe"]}
        self.distribution["model_cfg"] = dict(self.cfg)

    def corpus(self):
        d = os.path.join(os.path.dirname(os.path.dirname(os.path.dirname(os.path.abspath(__file__)))), "corpus", "C03")
        out = []
        dirs = [d]
        if all(self.cfg.values()):
            # regression witnesses of defects that the fixes remove (on the unfixed tree they are plain violations)
            dirs.append(os.path.join(d, "after_fix"))
        for dd in dirs:
            if os.path.isdir(dd):
                for f in sorted(os.listdir(dd)):
                    if f.endswith(".json"):
                        c = json.load(open(os.path.join(dd, f)))
                        out.append({"tables": c["tables"], "pipe": c["pipe"], "_always": True})
        return out

    def real(self, case):
        ops, err = pipes.build_or_error(case)
        if ops is None:
            return {"build_err": err}
        t0 = time.time()
        e = pipes.run_polars(ops, case["tables"], lazy=False)
        if "ok" in e and len(e["ok"]["rows"]) > self.max_result_rows and not case.get("_always"):
            self.slow.add(_sig(case))
            return {"skip": "large"}
        l = pipes.run_polars(ops, case["tables"], lazy=True)
        if time.time() - t0 > self.slow_s and not case.get("_always"):
            self.slow.add(_sig(case))
            return {"skip": "slow"}
        if "err" in e and "err" in l:
            self.raised.add(_sig(case))
            return {"err": "raise", "cls": e["err"]}
        self.polars_out[_sig(case)] = (e, l)     # two small tables, handed to the oracle (no second Polars run)
        if "err" in e or "err" in l:
            return {"split": {"eager": e.get("err", "ok"), "lazy": l.get("err", "ok")}}
        d = pipes.same_table(e["ok"], l["ok"])
        if d is not None:
            return {"split": {"eager_vs_lazy": d}}
        return {"ok": e["ok"]}

    def driver_case(self, case):
        if _sig(case) in self.slow:
            return {"ops": {"node": "table", "name": "none", "cols": ["x"]}, "tables": {}, "cfg": dict(self.cfg)}
        dc = super().driver_case(case)
        dc["cfg"] = dict(self.cfg)
        return dc

    def real_canon(self, out, case=None):
        if isinstance(out, dict) and "split" in out:
            return out
        return self._canon(out, case)

    def model_canon(self, out, case=None):
        if isinstance(out, dict):
            self.guards[_sig(case)] = out.get("guards") if "unsupported" not in out else None
        self._last = _sig(case)
        self._cur_case = case or {}
        return super().model_canon(out, case)

    def agree(self, real_c, model_c):
        ok = self._agree(real_c, model_c)
        self.agreed[getattr(self, "_last", None)] = ok   # model_canon of the same case ran just before
        self.distribution["outcomes"] = {"polars_raised": self.real_raises, "dtype_raises_model_returns": self.dtype_raises, "dtype_raise_classes": dict(self.dtype_classes),
                                         "eager_lazy_differ": self.eager_lazy_differ, "skipped_slow": len(self.slow),
                                         "outside_model_fragment": dict(self.unsupported)}
        return ok

    def _agree(self, real_c, model_c):
        if not isinstance(model_c, dict) or not isinstance(real_c, dict):
            return False
        if "unsupported" in model_c or "build_err" in real_c or "skip" in real_c:
            return True
        if "split" in real_c:
            self.eager_lazy_differ += 1
            return False
        if "err" in real_c:
            self.real_raises += 1
            if "err" in model_c:
                return True
            if "ok" in model_c and real_c.get("cls") == "OverflowError" and ".around(-" in json.dumps(getattr(self, "_cur_case", {}).get("pipe")):
                # Polars `round(decimals=k)` takes an unsigned k: a negative number of decimals raises (a raise is accepted
                # by C03; the model has no such raise because its `around` is the numpy meaning)
                self.dtype_raises += 1
                self.dtype_classes["OverflowError(around negative decimals)"] = \
                    self.dtype_classes.get("OverflowError(around negative decimals)", 0) + 1
                return True
            if "ok" in model_c and real_c.get("cls") in DTYPE_ERRORS:
                self.dtype_raises += 1
                self.dtype_classes[real_c.get("cls")] = self.dtype_classes.get(real_c.get("cls"), 0) + 1
                return True
            return False
        if "err" in model_c:
            return False
        return super().agree(real_c, model_c)

    def nontrivial(self, case, real_out):
        return isinstance(real_out, dict) and "ok" in real_out and len(real_out["ok"]["rows"]) > 0


def _oracle(case, **opts):
    s = SUITES[0]
    sig = _sig(case)
    if sig in s.slow or sig in s.raised:
        return []       # a raise on both eager and lazy frames is accepted by the property: nothing to compare
    ctx = oracles.Ctx(case)
    pre = s.polars_out.pop(sig, None)
    if pre is not None and ctx.ops is not None:
        for lazy, out in ((False, pre[0]), (True, pre[1])):
            ctx._out[("polars", id(ctx.ops), json.dumps({"lazy": lazy}, sort_keys=True, default=str))] = out
    fs = oracles.oracle_C03(case, ctx=ctx, **opts)
    if fs:
        try:
            s.oracle_tags[sig] = set(ctx.guards())     # the oracle's own guard predicates on this case
        except Exception:
            s.oracle_tags[sig] = set()
    return fs


def _make():
    s = with_oracle(K6Polars, _oracle, name="k6_polars")
    base_finding = s.finding

    def finding(case, real_out, why):
        if s.agreed.get(_sig(case)) is False:
            return None     # code and model differ on this case: never attributed to a known finding
        gs = s.guards.get(_sig(case))
        if gs is None:
            # outside the model's fragment (symbol without a modelled value): the oracle's own guard predicate on
            # the case decides - its live finding, or its named candidate when that is one of C03's findings
            tags = s.oracle_tags.get(_sig(case)) or set()
            for tag, fid in TAG_FINDING:
                if tag in tags and (FIXED_BY.get(fid) is None or not s.cfg.get(FIXED_BY[fid], True)):
                    return fid
            if "nunique_null" in tags:      # the tag also covers "ungrouped nunique over no rows"
                return "C03-polars-empty-project-all-null"
            return None
        ids = [g for g in PRIORITY if g in gs and GUARD_FINDING.get(g)]
        if not ids:
            return None
        oid = base_finding(case, real_out, why)
        for g in ids:
            if GUARD_FINDING[g] == oid:
                return oid
        return GUARD_FINDING[ids[0]]

    s.finding = finding
    s.driver_suite = None
    return s


class K4C03(K4Sem):
    """the Pandas side of the tie: `sem SemCfg.pandas` vs the real Pandas executor (same suite as C18's, without the
    pipelines of more than three joins, whose intermediate tables explode)"""
    n_quick, n_thorough = 100, 1500

    def gen(self, rng, tier):
        n = self.n_quick if tier == "quick" else self.n_thorough
        opts = dict(self.opts)
        if tier != "quick":
            opts.update(max_rows=K6Polars.max_rows_thorough, max_depth=K6Polars.max_depth_thorough)
        k = 0
        while k < n:
            case = _gen_case(rng, tier, opts)
            if case is None:
                continue
            if json.dumps(case["pipe"]).count('"natural_join"') > K6Polars.max_joins:
                continue
            k += 1
            for c in case["meta"].get("calls", []):
                self.distribution[c] = self.distribution.get(c, 0) + 1
            yield {"tables": case["tables"], "pipe": case["pipe"]}


class _Witnesses(OracleOnly):
    """hand-written witnesses outside the value domain of the executable model (true NaN cells produced by 0.0 / 0.0 inside
    a pipeline: the model's cells are exact rationals), judged by the oracle alone: Polars vs Pandas"""
    def gen(self, rng, tier):
        return iter(())


SUITES = [_make(), K4C03(),
          with_oracle(_Witnesses, oracles.oracle_C03, name="c03_witnesses", corpus_dir="C03/witnesses")]
