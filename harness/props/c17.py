"""C17 — Record transforms are invertible and compose as documented."""
import itertools
import json
import math
import os

from ..core import Suite, VERIF

PROPERTY = "C17"
LEAN_MODULES = ["DAVerif.Props.C17"]
THEOREMS = [
    "DAVerif.CData.C17_rows_to_blocks_meaning",
    "DAVerif.CData.C17_blocks_to_rows_meaning",
    "DAVerif.CData.C17_rows_blocks_inverse",
    "DAVerif.CData.C17_blocks_rows_inverse",
    "DAVerif.CData.C17_inverse_map",
    "DAVerif.CData.C17_compose",
]
ASSUMPTIONS = [
    "pandas primitives behave as transcribed in CData/Record.lean: groupby iterates groups in ascending key order and "
    "drops null keys, sort_values is stable/ascending/nulls-last, .loc[:, cols] selects by label, concat(axis=1) of "
    "equally long frames appends row-wise, merge(how='left') on a keyed control table finds at most one row",
    "frames have distinct column labels; key columns are kind-uniform (all integers or all strings, nulls apart): "
    "pandas raises TypeError when sorting a mixed column (outside 'conforming data tables')",
    "cells are null | integer | string (floats, dates, inf are not generated)",
    "the theorems speak about the Pandas executor's model; Polars is compared with Pandas by the oracle only",
]
NOT_PROVEN = [
    "Pandas-vs-Polars agreement on every record transform (sampled by the oracle: Polars frames through the same "
    "RecordMap, also with Polars control tables, compared up to row and column order; a Polars raise is recorded, "
    "not judged)",
    "compose when m2.blocks_in has the layout of m1.blocks_out but *renames* its content keys (C17_compose's "
    "Interface hypothesis asks for the same cells; the generator renames in ~60% of the matching compositions and "
    "the oracle compares composite vs sequential there)",
    "compose returning None for a rows->blocks->rows composite, or raising, is outside the statement (no map)",
    "the constructor accepting specifications whose block form repeats a column label (scope hypothesis "
    "NamesDistinct): every transform on them raises",
]
LEVEL_TEXT = ("Kernel-checked for every control table, record-key list and conforming table: both round trips, "
              "inverse(), and compose() (as repaired by fixes/cdata-compose-row-forms.diff) agree with sequential "
              "application; the two conversions are shown to compute the record view (record key -> content key -> "
              "value). The model is tied to cdata.py/pandas_base.py by exact comparison (column and row order "
              "included) on random and malformed specs/tables; an independent dict-of-dict oracle plus "
              "Pandas-vs-Polars differential search for failing inputs.")
LEVEL_NOTE = ("Trusted: Lean kernel; axioms propext/Classical.choice/Quot.sound; the hand-written model of cdata.py and "
              "of the Pandas pivot/unpivot (validated by the correspondence suite on every run); the pandas "
              "primitives listed under assumptions. Polars agreement is sampled, not proven.")
RULE = ("random control tables (1-3 key columns, 1-4 value columns, 1-4 rows, shuffled column order), record keys 0-2 "
        "columns, 0-4 records, integer/string/null cells from small pools; ~70% conforming tables, ~30% malformed "
        "(missing block row, duplicated row, null key, unknown control key, missing column, malformed specs); thorough "
        "adds an exhaustive enumeration of small specs x small tables; non-trivial = a transform that returned a "
        "table with at least one row, or a composed map")

ERR_NAMES = {"KeyError", "ValueError", "TypeError", "AssertionError", "IndexError", "AttributeError"}


# --------------------------------------------------------------------------------------------------
# JSON <-> frames
# --------------------------------------------------------------------------------------------------

def _pd():
    import pandas
    return pandas


def to_pd(t):
    pd = _pd()
    cols = t["cols"]
    if len(set(cols)) != len(cols):  # duplicate labels survive only in the row-list constructor
        return pd.DataFrame([list(r) for r in t["rows"]], columns=list(cols))
    return pd.DataFrame({c: [r[j] for r in t["rows"]] for j, c in enumerate(cols)})


def to_pl(t):
    import polars as pl
    return pl.DataFrame({c: [r[j] for r in t["rows"]] for j, c in enumerate(t["cols"])})


def cell(v):
    import numpy as np
    pd = _pd()
    if v is None:
        return None
    if isinstance(v, str):
        return v
    if isinstance(v, (bool, np.bool_)):
        return bool(v)
    if isinstance(v, (int, np.integer)):
        return int(v)
    if isinstance(v, (float, np.floating)):
        if math.isnan(v):
            return None
        if v == int(v):
            return int(v)
        return float(v)
    try:
        if pd.isna(v):
            return None
    except Exception:
        pass
    return "?" + str(v)


def label(c):
    return c if isinstance(c, str) else ("nan" if (isinstance(c, float) and math.isnan(c)) else str(c))


def from_pd(df):
    n, m = df.shape
    return {"cols": [label(c) for c in df.columns],
            "rows": [[cell(df.iloc[i, j]) for j in range(m)] for i in range(n)]}


def from_pl(df):
    return {"cols": list(df.columns), "rows": [[cell(v) for v in r] for r in df.rows()]}


def sort_key(v):
    return (2, "") if v is None else ((0, v) if isinstance(v, int) else (1, str(v)))


def bag(t):
    """table up to row and column order: sorted column names, sorted rows (None if labels repeat)"""
    cols = t["cols"]
    if len(set(cols)) != len(cols):
        return None
    order = sorted(range(len(cols)), key=lambda j: cols[j])
    rows = [[r[j] for j in order] for r in t["rows"]]
    rows.sort(key=lambda r: [sort_key(v) for v in r])
    return {"cols": [cols[j] for j in order], "rows": rows}


def outcome(f, conv):
    try:
        return {"ok": conv(f())}
    except Exception as e:  # class name only
        return {"err": type(e).__name__}


def build_spec(rs):
    from data_algebra.cdata import RecordSpecification
    return RecordSpecification(to_pd(rs["control"]), record_keys=list(rs["record_keys"]),
                               control_table_keys=(None if rs["control_keys"] is None else list(rs["control_keys"])),
                               strict=rs["strict"])


def build_spec_pl(rs):
    from data_algebra.cdata import RecordSpecification
    import data_algebra.polars_model  # noqa: F401  (registers the Polars data model)
    return RecordSpecification(to_pl(rs["control"]), record_keys=list(rs["record_keys"]),
                               control_table_keys=(None if rs["control_keys"] is None else list(rs["control_keys"])),
                               strict=rs["strict"])


def build_map(rm, spec_builder=build_spec):
    from data_algebra.cdata import RecordMap
    bi = None if rm["in"] is None else spec_builder(rm["in"])
    bo = None if rm["out"] is None else spec_builder(rm["out"])
    return RecordMap(blocks_in=bi, blocks_out=bo, strict=rm["strict"])


def spec_json(s):
    if s is None:
        return None
    return {"control": from_pd(s.control_table), "record_keys": list(s.record_keys),
            "control_keys": list(s.control_table_keys), "strict": bool(s.strict)}


def map_json(m):
    return {"in": spec_json(m.blocks_in), "out": spec_json(m.blocks_out), "strict": bool(m.strict)}


def get_map(case):
    """the RecordMap (raw JSON) a transform-like case applies"""
    op = case["op"]
    if op == "to_rows":
        return {"in": case["spec"], "out": None, "strict": case["spec"]["strict"]}
    if op == "to_blocks":
        return {"in": None, "out": case["spec"], "strict": case["spec"]["strict"]}
    return case["map"]


# --------------------------------------------------------------------------------------------------
# independent reference: records as  record key tuple -> content key -> value   (plain Python)
# --------------------------------------------------------------------------------------------------

def is_name(v):
    return isinstance(v, str) and len(v) > 0


def spec_well_formed(rs, need_blocks=True):
    """my reading of 'strict record specification' describing at least one table (independent of the code)"""
    ct = rs["control"]
    cols, rows = ct["cols"], ct["rows"]
    ck = rs["control_keys"]
    rk = rs["record_keys"]
    if not rs["strict"] or ck is None:
        return False
    if len(rows) < (2 if need_blocks else 1) or len(cols) < 2 or len(set(cols)) != len(cols):
        return False
    if len(ck) < 1 or len(set(ck)) != len(ck) or any(k not in cols for k in ck) or len(ck) >= len(cols):
        return False
    if len(set(rk)) != len(rk) or any(k in cols for k in rk):
        return False
    kidx = [cols.index(k) for k in ck]
    keys = [tuple(r[j] for j in kidx) for r in rows]
    if any(v is None for k in keys for v in k) or len(set(keys)) != len(keys):
        return False
    for j in kidx:
        if len({type(r[j]) for r in rows}) != 1:
            return False
    content = [r[j] for j in range(len(cols)) if cols[j] not in ck for r in rows]
    if not all(is_name(v) for v in content) or len(set(content)) != len(content):
        return False
    if any(k in content for k in rk):
        return False
    return True


def content_of(rs):
    ct = rs["control"]
    return [r[j] for j, c in enumerate(ct["cols"]) if c not in rs["control_keys"] for r in ct["rows"]]


def uniform(vals):
    return len({type(v) for v in vals if v is not None}) <= 1


def rows_records(rs, t):
    """row-record table -> records, or None when the table is not a conforming row-record table"""
    cols = t["cols"]
    need = list(rs["record_keys"]) + content_of(rs)
    if len(set(cols)) != len(cols) or any(c not in cols for c in need):
        return None
    recs = {}
    for r in t["rows"]:
        d = dict(zip(cols, r))
        key = tuple(d[k] for k in rs["record_keys"])
        if any(v is None for v in key) or key in recs:
            return None
        recs[key] = {c: d[c] for c in content_of(rs)}
    for j, k in enumerate(rs["record_keys"]):
        if not uniform([key[j] for key in recs]):
            return None
    return recs


def blocks_records(rs, t):
    """block-record table -> records, or None when the table is not keyed with complete blocks"""
    ct = rs["control"]
    ccols = ct["cols"]
    ck = rs["control_keys"]
    cols = t["cols"]
    need = list(rs["record_keys"]) + list(ccols)
    if len(set(cols)) != len(cols) or any(c not in cols for c in need):
        return None
    layout = {}
    for cr in ct["rows"]:
        d = dict(zip(ccols, cr))
        layout[tuple(d[k] for k in ck)] = {c: d[c] for c in ccols if c not in ck}
    seen = {}
    for r in t["rows"]:
        d = dict(zip(cols, r))
        key = tuple(d[k] for k in rs["record_keys"])
        bkey = tuple(d[k] for k in ck)
        if any(v is None for v in key) or bkey not in layout or (key, bkey) in seen:
            return None
        seen[(key, bkey)] = d
    keys = list(dict.fromkeys(k for k, _ in seen))
    recs = {}
    for key in keys:
        rec = {}
        for bkey, names in layout.items():
            if (key, bkey) not in seen:
                return None
            for vc, name in names.items():
                rec[name] = seen[(key, bkey)][vc]
        recs[key] = rec
    for j, k in enumerate(rs["record_keys"]):
        if not uniform([key[j] for key in recs]):
            return None
    return recs


def records_to_rows(rs, recs, rk_from):
    cols = list(rs["record_keys"]) + content_of(rs)
    rows = []
    for key, rec in recs.items():
        kd = dict(zip(rk_from, key))
        rows.append([kd[k] for k in rs["record_keys"]] + [rec[c] for c in content_of(rs)])
    return {"cols": cols, "rows": rows}


def records_to_blocks(rs, recs, rk_from):
    ct = rs["control"]
    ccols = ct["cols"]
    ck = rs["control_keys"]
    cols = list(rs["record_keys"]) + list(ccols)
    rows = []
    for key, rec in recs.items():
        kd = dict(zip(rk_from, key))
        for cr in ct["rows"]:
            d = dict(zip(ccols, cr))
            rows.append([kd[k] for k in rs["record_keys"]] + [d[c] if c in ck else rec[d[c]] for c in ccols])
    return {"cols": cols, "rows": rows}


def norm_side(rs):
    """RecordMap treats a single-row specification as row records (documented in its constructor)"""
    if rs is None or len(rs["control"]["rows"]) <= 1:
        return None
    return rs


def map_well_formed(rm):
    """a strict map between well-formed specifications with matching record keys and content keys ⊇"""
    if not rm["strict"]:
        return False
    for side in ("in", "out"):
        if rm[side] is not None and not spec_well_formed(rm[side], need_blocks=False):
            return False
    a, b = norm_side(rm["in"]), norm_side(rm["out"])
    if a is None and b is None:
        return False
    if a is not None and b is not None:
        if set(a["record_keys"]) != set(b["record_keys"]):
            return False
        if not set(content_of(b)) <= set(content_of(a)):
            return False
    return True


def expected_transform(rm, t):
    """(expected table, conforming?) of applying the map to t; (None, False) when t is not conforming"""
    a, b = norm_side(rm["in"]), norm_side(rm["out"])
    if a is not None:
        recs = blocks_records(a, t)
        rk_from = a["record_keys"]
        content = content_of(a)
    else:
        recs = rows_records(b, t)
        rk_from = b["record_keys"]
        content = content_of(b)
    if recs is None:
        return None, False
    if b is not None:
        return records_to_blocks(b, recs, rk_from), True
    return records_to_rows(a, recs, rk_from), True


def restrict(t, cols):
    idx = [t["cols"].index(c) for c in cols]
    return {"cols": list(cols), "rows": [[r[j] for j in idx] for r in t["rows"]]}


def same_bag(x, y):
    bx, by = bag(x), bag(y)
    return bx is not None and by is not None and bx == by


def describe(t):
    return json.dumps(bag(t) or t, ensure_ascii=False)[:300]


# --------------------------------------------------------------------------------------------------
# generators
# --------------------------------------------------------------------------------------------------

RK_NAMES = ["id", "g", "r1"]
CK_NAMES = ["k", "k1", "m", "lab"]
VC_NAMES = ["v", "w", "u", "z"]
CONTENT = ["x", "y", "a1", "b2", "c", "d", "e3", "f", "p", "q", "s", "t", "X", "y value", "x1", "x2"]
STR_KEYS = ["a", "b", "c", "B", "aa", ""]
INT_KEYS = [0, 1, 2, 3, -1, 10]
STR_VALS = ["", "u", "x", "zz", "a"]
INT_VALS = [0, 1, 2, 5, -3, 7]


def gen_control(rng, n_rows=None, content=None, ck_names=None, vc_names=None):
    """a keyed control table over distinct content keys; returns (Table, control key names)"""
    nk = rng.choice([1, 1, 1, 2, 2, 3]) if ck_names is None else len(ck_names)
    nv = rng.randint(1, 4) if vc_names is None else len(vc_names)
    nr = n_rows if n_rows is not None else rng.choice([1, 2, 2, 2, 3, 3, 4])
    if content is not None:
        # fit the layout to the given content keys (nv * nr = len(content) when possible)
        n = len(content)
        opts = [(r, n // r) for r in range(1, 5) if n % r == 0 and 1 <= n // r <= 4]
        nr, nv = rng.choice(opts) if opts else (n, 1)
        if vc_names is not None:
            nv = len(vc_names)
    ck = rng.sample(CK_NAMES, nk) if ck_names is None else list(ck_names)
    vcs = rng.sample(VC_NAMES, nv) if vc_names is None else list(vc_names)
    if content is None:
        content = rng.sample(CONTENT, nv * nr)
    else:
        content = list(content)
        rng.shuffle(content)
    kinds = [rng.choice(["s", "s", "i"]) for _ in ck]
    pools = [list(STR_KEYS) if kd == "s" else list(INT_KEYS) for kd in kinds]
    if math.prod(len(p) for p in pools) < nr:
        pools[0] = pools[0] + ([f"s{i}" for i in range(nr)] if kinds[0] == "s" else list(range(100, 100 + nr)))
    keys = rng.sample(list(itertools.product(*pools)), nr)
    cols = ck + vcs
    order = list(range(len(cols)))
    if rng.random() < 0.4:
        rng.shuffle(order)
    rows = []
    for i in range(nr):
        full = list(keys[i]) + [content[j * nr + i] for j in range(nv)]
        rows.append([full[o] for o in order])
    return {"cols": [cols[o] for o in order], "rows": rows}, ck


def gen_spec(rng, rk=None, **kw):
    ct, ck = gen_control(rng, **kw)
    if rk is None:
        rk = rng.sample(RK_NAMES, rng.choice([0, 1, 1, 1, 2]))
    if rng.random() < 0.3:
        rng.shuffle(ck)
    return {"control": ct, "record_keys": list(rk), "control_keys": ck, "strict": True}


def gen_records(rng, rk, content, n=None):
    """records: distinct non-null kind-uniform keys; values mostly integers, ~15% nulls, some string columns"""
    if n is None:
        n = rng.choice([0, 1, 1, 2, 2, 3, 4])
    if not rk:
        n = min(n, 1)
    kinds = [rng.choice(["i", "i", "s"]) for _ in rk]
    keys = set()
    tries = 0
    while len(keys) < n and tries < 100:
        keys.add(tuple(rng.choice(INT_KEYS if kd == "i" else STR_KEYS) for kd in kinds))
        tries += 1
    keys = list(keys)
    rng.shuffle(keys)
    vkind = {c: ("s" if rng.random() < 0.12 else "i") for c in content}
    if rng.random() < 0.7:  # Polars needs one dtype per block value column: keep everything integer
        vkind = {c: "i" for c in content}
    recs = {}
    for key in keys:
        recs[key] = {c: (None if rng.random() < 0.15 else rng.choice(INT_VALS if vkind[c] == "i" else STR_VALS))
                     for c in content}
    return recs


def shuffle_table(rng, t, extra=True):
    cols = list(t["cols"])
    rows = [list(r) for r in t["rows"]]
    if extra and rng.random() < 0.2:
        cols.append("extra")
        rows = [r + [rng.choice([None, 1, 2])] for r in rows]
    order = list(range(len(cols)))
    if rng.random() < 0.5:
        rng.shuffle(order)
    rng.shuffle(rows)
    return {"cols": [cols[o] for o in order], "rows": [[r[o] for o in order] for r in rows]}


def malform_table(rng, t, rs, block_form):
    """one defect: missing row, duplicated row, null key, unknown control key, missing column, null everywhere"""
    t = {"cols": list(t["cols"]), "rows": [list(r) for r in t["rows"]]}
    kind = rng.choice(["drop_row", "dup_row", "null_key", "unknown_ck", "drop_col", "null_ck", "swap_rows"])
    keycols = list(rs["record_keys"]) + (list(rs["control_keys"]) if block_form else [])
    if kind == "drop_row" and t["rows"]:
        t["rows"].pop(rng.randrange(len(t["rows"])))
        if rng.random() < 0.5 and t["rows"]:
            t["rows"].pop(rng.randrange(len(t["rows"])))
    elif kind == "dup_row" and t["rows"]:
        r = list(rng.choice(t["rows"]))
        if rng.random() < 0.5:
            vc = [j for j, c in enumerate(t["cols"]) if c not in keycols]
            if vc:
                r[rng.choice(vc)] = 99
        t["rows"].insert(rng.randrange(len(t["rows"]) + 1), r)
    elif kind == "null_key" and t["rows"] and rs["record_keys"]:
        j = t["cols"].index(rng.choice(rs["record_keys"]))
        for r in rng.sample(t["rows"], rng.randint(1, min(2, len(t["rows"])))):
            r[j] = None
    elif kind == "null_ck" and t["rows"] and block_form:
        j = t["cols"].index(rng.choice(rs["control_keys"]))
        for r in rng.sample(t["rows"], rng.randint(1, min(2, len(t["rows"])))):
            r[j] = None
    elif kind == "unknown_ck" and t["rows"] and block_form:
        j = t["cols"].index(rng.choice(rs["control_keys"]))
        r = rng.choice(t["rows"])
        r[j] = "zz" if isinstance(r[j], str) else 77
    elif kind == "drop_col" and len(t["cols"]) > 1:
        j = rng.randrange(len(t["cols"]))
        t["cols"].pop(j)
        for r in t["rows"]:
            r.pop(j)
    elif kind == "swap_rows" and block_form and len(t["rows"]) >= 2 and rs["record_keys"]:
        # move a block row to another record: blocks stay equally long but incomplete
        j = t["cols"].index(rs["record_keys"][0])
        a, b = rng.sample(range(len(t["rows"])), 2)
        t["rows"][a][j] = t["rows"][b][j]
    return t


def malform_spec(rng, rs):
    rs = json.loads(json.dumps(rs))
    ct = rs["control"]
    kind = rng.choice(["dup_content", "null_cell", "int_cell", "empty_cell", "dup_key", "null_key", "all_keys",
                       "unknown_key", "rk_is_ck", "rk_is_content", "no_keys", "default_keys", "dup_cols", "one_col",
                       "no_rows", "nonstrict_dup", "key_last"])
    vj = [j for j, c in enumerate(ct["cols"]) if c not in rs["control_keys"]]
    kj = [j for j, c in enumerate(ct["cols"]) if c in rs["control_keys"]]
    if kind == "dup_content" and len(ct["rows"]) * len(vj) >= 2:
        ct["rows"][-1][vj[-1]] = ct["rows"][0][vj[0]]
    elif kind == "nonstrict_dup" and len(ct["rows"]) * len(vj) >= 2:
        ct["rows"][-1][vj[-1]] = ct["rows"][0][vj[0]]
        rs["strict"] = False
    elif kind == "null_cell":
        rng.choice(ct["rows"])[rng.choice(vj)] = None
    elif kind == "int_cell":
        rng.choice(ct["rows"])[rng.choice(vj)] = 5
    elif kind == "empty_cell":
        rng.choice(ct["rows"])[rng.choice(vj)] = ""
    elif kind == "dup_key" and len(ct["rows"]) >= 2:
        for j in kj:
            ct["rows"][1][j] = ct["rows"][0][j]
    elif kind == "null_key":
        for r in rng.sample(ct["rows"], rng.randint(1, len(ct["rows"]))):
            r[rng.choice(kj)] = None
    elif kind == "all_keys":
        rs["control_keys"] = list(ct["cols"])
    elif kind == "unknown_key":
        rs["control_keys"] = rs["control_keys"] + ["nokey"]
    elif kind == "rk_is_ck":
        rs["record_keys"] = rs["record_keys"] + [rs["control_keys"][0]]
    elif kind == "rk_is_content":
        rs["record_keys"] = rs["record_keys"] + [ct["rows"][0][vj[0]]]
    elif kind == "no_keys":
        rs["control_keys"] = []
    elif kind == "default_keys":
        rs["control_keys"] = None
    elif kind == "dup_cols" and len(ct["cols"]) >= 2:
        ct["cols"][vj[0]] = ct["cols"][kj[0]]
    elif kind == "one_col":
        j = kj[0]
        ct["cols"] = [ct["cols"][j]]
        ct["rows"] = [[r[j]] for r in ct["rows"]]
    elif kind == "no_rows":
        ct["rows"] = []
    if rng.random() < 0.2:
        rs["strict"] = False
    return rs


def rename_content(rng, rs, mapping=None):
    """the same layout with content keys renamed (injectively); returns (spec, mapping old->new)"""
    rs = json.loads(json.dumps(rs))
    old = content_of(rs)
    if mapping is None:
        fresh = [c for c in CONTENT if c not in old]
        rng.shuffle(fresh)
        mapping = {}
        for c in old:
            mapping[c] = fresh.pop() if (fresh and rng.random() < 0.6) else c
        if len(set(mapping.values())) != len(mapping):
            mapping = {c: c for c in old}
    ct = rs["control"]
    for r in ct["rows"]:
        for j, c in enumerate(ct["cols"]):
            if c not in rs["control_keys"]:
                r[j] = mapping.get(r[j], r[j])
    return rs, mapping


class CData(Suite):
    name = "cdata"

    def __init__(self):
        self.distribution = {}
        self.shrink_budget = 300

    def count(self, k, n=1):
        self.distribution[k] = self.distribution.get(k, 0) + n

    # ---------------------------------------------------------------------------------------------
    def gen_case(self, rng):
        u = rng.random()
        if u < 0.10:
            rs = gen_spec(rng)
            if rng.random() < 0.75:
                rs = malform_spec(rng, rs)
            return {"op": "spec", "spec": rs}
        if u < 0.25:
            return self.gen_simple(rng, "to_blocks")
        if u < 0.40:
            return self.gen_simple(rng, "to_rows")
        if u < 0.55:
            return self.gen_two_sided(rng, "transform")
        if u < 0.78:
            return self.gen_two_sided(rng, "inverse_roundtrip")
        return self.gen_compose(rng)

    def data_for(self, rng, rm, malformed_ok=True):
        """a table conforming to the map's input side (70%) or with one defect (30%)"""
        a, b = norm_side(rm["in"]), norm_side(rm["out"])
        side = a if a is not None else b
        if side is None or side["control_keys"] is None or not spec_well_formed(side, need_blocks=False):
            # malformed spec: any table
            side = gen_spec(rng)
            a = None
        recs = gen_records(rng, side["record_keys"], content_of(side))
        if a is not None:
            t = records_to_blocks(side, recs, side["record_keys"])
        else:
            t = records_to_rows(side, recs, side["record_keys"])
        t = shuffle_table(rng, t)
        if malformed_ok and rng.random() < 0.3:
            t = malform_table(rng, t, side, a is not None)
            self.count("malformed_table")
        else:
            self.count("conforming_table")
        return t

    def gen_simple(self, rng, op):
        rs = gen_spec(rng)
        if rng.random() < 0.12:
            rs = malform_spec(rng, rs)
            self.count("malformed_spec")
        rm = {"in": rs, "out": None, "strict": True} if op == "to_rows" else {"in": None, "out": rs, "strict": True}
        return {"op": op, "spec": rs, "table": self.data_for(rng, rm)}

    def gen_map(self, rng, rk=None, a=None):
        """a RecordMap: rows->B, A->rows, or A->B over the same content keys (sometimes a subset / renamed rk order)"""
        form = rng.choice(["in", "out", "both", "both", "both"])
        if a is None:
            a = gen_spec(rng, rk=rk)
        if form == "in":
            return {"in": a, "out": None, "strict": True}
        if form == "out":
            return {"in": None, "out": a, "strict": True}
        content = content_of(a)
        if rng.random() < 0.15 and len(content) > 2:
            content = rng.sample(content, len(content) - 1)
        rkb = list(a["record_keys"])
        if rng.random() < 0.3:
            rng.shuffle(rkb)
        b = gen_spec(rng, rk=rkb, content=content)
        return {"in": a, "out": b, "strict": True}

    def gen_two_sided(self, rng, op):
        rm = self.gen_map(rng)
        if rng.random() < 0.1:
            side = rng.choice(["in", "out"])
            if rm[side] is not None:
                rm[side] = malform_spec(rng, rm[side])
                self.count("malformed_spec")
        if rng.random() < 0.05:
            rm["strict"] = False
        return {"op": op, "map": rm, "table": self.data_for(rng, rm)}

    def gen_compose(self, rng):
        rk = rng.sample(RK_NAMES, rng.choice([0, 1, 1, 1, 2]))
        m1 = self.gen_map(rng, rk=rk)
        mid = norm_side(m1["out"])
        u = rng.random()
        if u < 0.8:
            # interface matches: m2 reads the form m1 writes (content keys possibly renamed, rows/cols permuted)
            if mid is None:
                # m1 writes row records with m1.in's content keys
                src = norm_side(m1["in"])
                content = content_of(src) if src is not None else rng.sample(CONTENT, 3)
                if rng.random() < 0.2 and len(content) > 2:
                    content = rng.sample(content, len(content) - 1)
                b2 = gen_spec(rng, rk=list(rk), content=content)
                m2 = {"in": None, "out": b2, "strict": True}
            else:
                a2, mapping = rename_content(rng, mid)
                if rng.random() < 0.3:
                    rows = a2["control"]["rows"]
                    rng.shuffle(rows)
                form = rng.choice(["rows", "blocks", "blocks"])
                if form == "rows":
                    m2 = {"in": a2, "out": None, "strict": True}
                else:
                    content = content_of(a2)
                    if rng.random() < 0.15 and len(content) > 2:
                        content = rng.sample(content, len(content) - 1)
                    rk2 = list(rk)
                    rng.shuffle(rk2)
                    b2 = gen_spec(rng, rk=rk2, content=content)
                    a2["record_keys"] = rk2 if rng.random() < 0.5 else a2["record_keys"]
                    m2 = {"in": a2, "out": b2, "strict": True}
            self.count("compose_matching")
        else:
            m2 = self.gen_map(rng, rk=(rk if rng.random() < 0.7 else None))
            self.count("compose_unrelated")
        c = {"op": "compose", "m1": m1, "m2": m2, "table": self.data_for(rng, m1, malformed_ok=rng.random() < 0.3)}
        if rng.random() < 0.3:
            c["rshift"] = True
        return c

    def gen(self, rng, tier):
        n = 600 if tier == "quick" else 7500
        for _ in range(n):
            c = self.gen_case(rng)
            self.count("op_" + c["op"])
            yield c
        if tier == "thorough":
            yield from self.exhaustive()

    def exhaustive(self):
        """all small specs (1 control key column, 2 control rows, 1-2 value columns, 0-1 record keys) x all tables of
        <= 2 records over {null, 1}, both directions, round trip"""
        names = ["x", "y", "z", "w"]
        for nv in (1, 2):
            for content in itertools.permutations(names, 2 * nv):
                if content[0] > content[-1]:
                    continue
                vcs = ["v", "w"][:nv]
                ct = {"cols": ["k"] + vcs,
                      "rows": [["a"] + [content[j * 2] for j in range(nv)], ["b"] + [content[j * 2 + 1] for j in range(nv)]]}
                for rk in ([], ["id"]):
                    rs = {"control": ct, "record_keys": rk, "control_keys": ["k"], "strict": True}
                    ids = [[]] if not rk else [[], [1], [2, 1]]
                    for idl in ids:
                        nrec = 1 if not rk else len(idl)
                        for vals in itertools.product([None, 1], repeat=min(nrec * 2 * nv, 4)):
                            recs = {}
                            keys = [()] if not rk else [(i,) for i in idl]
                            for n_, key in enumerate(keys):
                                recs[key] = {c: vals[(n_ * 2 * nv + j) % len(vals)] for j, c in enumerate(content)}
                            rows_t = records_to_rows(rs, recs, rk)
                            blocks_t = records_to_blocks(rs, recs, rk)
                            self.count("exhaustive", 2)
                            yield {"op": "inverse_roundtrip", "map": {"in": None, "out": rs, "strict": True},
                                   "table": rows_t}
                            yield {"op": "inverse_roundtrip", "map": {"in": rs, "out": None, "strict": True},
                                   "table": blocks_t}

    # ---------------------------------------------------------------------------------------------
    def corpus(self):
        d = os.path.join(VERIF, "corpus", "C17")
        out = []
        if os.path.isdir(d):
            for f in sorted(os.listdir(d)):
                if f.endswith(".json"):
                    out.append(json.load(open(os.path.join(d, f)))["case"])
        return out

    # ---------------------------------------------------------------------------------------------
    def real(self, case):
        op = case["op"]
        if op == "spec":
            def f():
                s = build_spec(case["spec"])
                return {"record_keys": list(s.record_keys), "control_keys": list(s.control_table_keys),
                        "content_keys": list(s.content_keys), "row_columns": list(s.row_columns),
                        "block_columns": list(s.block_columns)}
            return {"pd": outcome(f, lambda x: x)}
        if op in ("to_rows", "to_blocks", "transform"):
            def mk(builder=build_spec):
                if op == "to_rows":
                    return builder(case["spec"]).map_to_rows()
                if op == "to_blocks":
                    return builder(case["spec"]).map_from_rows()
                return build_map(case["map"], builder)
            res = {"pd": outcome(lambda: mk().transform(to_pd(case["table"])), from_pd)}
            res["pl"] = outcome(lambda: mk().transform(to_pl(case["table"])), from_pl)
            res["plct"] = outcome(lambda: mk(build_spec_pl).transform(to_pl(case["table"])), from_pl)
            return res
        if op == "inverse_roundtrip":
            return self.roundtrip(case)
        if op == "compose":
            return self.compose(case)
        raise ValueError(op)

    def roundtrip(self, case):
        try:
            m = build_map(case["map"])
        except Exception as e:
            return {"pd": {"build": type(e).__name__}}
        try:
            inv = m.inverse()
            invj = map_json(inv)
        except Exception as e:
            inv = None
            invj = type(e).__name__
        res = {}
        for nm, conv_in, conv_out in (("pd", to_pd, from_pd), ("pl", to_pl, from_pl)):
            fwd = [None]

            def f():
                fwd[0] = m.transform(conv_in(case["table"]))
                return fwd[0]
            r = {"build": "ok", "fwd": outcome(f, conv_out), "inverse": invj}
            r["back"] = outcome(lambda: inv.transform(fwd[0]), conv_out) \
                if (inv is not None and fwd[0] is not None) else None
            res[nm] = r
        return res

    def compose(self, case):
        try:
            m1 = build_map(case["m1"])
            m2 = build_map(case["m2"])
        except Exception as e:
            return {"pd": {"build": type(e).__name__}}
        try:
            cm = m2.compose(m1)
            cj = "none" if cm is None else map_json(cm)
        except Exception as e:
            cm = None
            cj = type(e).__name__
        res = {}
        for nm, conv_in, conv_out in (("pd", to_pd, from_pd), ("pl", to_pl, from_pl)):
            r = {"build": "ok", "compose": cj}
            r["seq"] = outcome(lambda: m2.transform(m1.transform(conv_in(case["table"]))), conv_out)
            r["comp"] = outcome(lambda: cm.transform(conv_in(case["table"])), conv_out) if cm is not None else None
            res[nm] = r
        if cm is not None and case.get("rshift"):
            # `m1 >> m2` is documented as the same composition
            try:
                res["pd"]["rshift_same"] = map_json(m1 >> m2) == cj
            except Exception as e:
                res["pd"]["rshift_same"] = type(e).__name__
        return res

    def real_canon(self, out, case=None):
        if isinstance(out, dict) and "pd" in out:
            r = out["pd"]
            if isinstance(r, dict) and "rshift_same" in r:
                r = {k: v for k, v in r.items() if k != "rshift_same"}
            return r
        return out

    # ---------------------------------------------------------------------------------------------
    # property oracle (uses only the real outcomes and the plain-Python record reference above)
    # ---------------------------------------------------------------------------------------------
    def oracle(self, case, real_out):
        if not isinstance(real_out, dict) or "harness_exc" in real_out:
            return "harness: " + str(real_out)[:300]
        op = case["op"]
        pdo = real_out["pd"]
        if op == "spec":
            rs = case["spec"]
            if rs["control_keys"] is not None and spec_well_formed(rs, need_blocks=False) and "err" in pdo:
                return f"spec: a well-formed strict specification is rejected ({pdo['err']})"
            return None
        if op in ("to_rows", "to_blocks", "transform"):
            rm = get_map(case)
            if not self.map_ok(case, rm):
                return None
            exp, conforming = expected_transform(rm, case["table"])
            if not conforming:
                return None
            if "err" in pdo:
                return f"transform: raises {pdo['err']} on a conforming table"
            if not same_bag(pdo["ok"], exp):
                return f"transform: returned {describe(pdo['ok'])}, the record view gives {describe(exp)}"
            return self.polars_agree(pdo, real_out, ("pl", "plct"))
        if op == "inverse_roundtrip":
            rm = case["map"]
            if not map_well_formed(rm) or pdo.get("build") != "ok":
                if map_well_formed(rm) and pdo.get("build") != "ok":
                    return f"build: a well-formed strict map is rejected ({pdo.get('build')})"
                return None
            exp, conforming = expected_transform(rm, case["table"])
            if not conforming:
                return None
            if "err" in pdo["fwd"]:
                return f"transform: raises {pdo['fwd']['err']} on a conforming table"
            if not same_bag(pdo["fwd"]["ok"], exp):
                return f"transform: returned {describe(pdo['fwd']['ok'])}, the record view gives {describe(exp)}"
            a, b = norm_side(rm["in"]), norm_side(rm["out"])
            invertible = a is None or b is None or set(content_of(a)) == set(content_of(b))
            if isinstance(pdo["inverse"], str):
                if invertible:
                    return f"inverse: inverse() raises {pdo['inverse']} for an invertible strict map"
                return None
            if not invertible:
                return None
            if pdo["back"] is None or "err" in pdo["back"]:
                return f"inverse: transforming back raises {pdo['back']}"
            needed = (list(a["record_keys"]) + list(a["control"]["cols"])) if a is not None else \
                (list(b["record_keys"]) + content_of(b))
            orig = restrict(case["table"], needed)
            if not same_bag(pdo["back"]["ok"], orig):
                return (f"inverse: transform then inverse().transform gives {describe(pdo['back']['ok'])}, the original "
                        f"table is {describe(orig)}")
            plo = real_out.get("pl")
            if isinstance(plo, dict) and plo.get("build") == "ok":
                for part in ("fwd", "back"):
                    x = plo.get(part)
                    if isinstance(x, dict) and "ok" in x and not same_bag(x["ok"], pdo[part]["ok"]):
                        return (f"polars: {part} differs: Polars {describe(x['ok'])}, Pandas "
                                f"{describe(pdo[part]['ok'])}")
            return None
        if op == "compose":
            if not (map_well_formed(case["m1"]) and map_well_formed(case["m2"])) or pdo.get("build") != "ok":
                return None
            _, conforming = expected_transform(case["m1"], case["table"])
            if not conforming:
                return None
            if "rshift_same" in pdo and pdo["rshift_same"] is not True:
                return f"rshift: m1 >> m2 differs from m2.compose(m1) ({pdo.get('rshift_same')})"
            if isinstance(pdo["compose"], str):
                return None  # no composite map (None or a raise): nothing to apply
            if "ok" not in pdo["seq"]:
                return None  # the two maps do not chain on this table
            if pdo["comp"] is None or "err" in pdo["comp"]:
                return (f"compose: the composite raises {pdo['comp']} where sequential application returns "
                        f"{describe(pdo['seq']['ok'])}")
            if not same_bag(pdo["comp"]["ok"], pdo["seq"]["ok"]):
                return (f"compose: composite gives {describe(pdo['comp']['ok'])}, sequential application gives "
                        f"{describe(pdo['seq']['ok'])}")
            plo = real_out.get("pl")
            if isinstance(plo, dict) and plo.get("build") == "ok":
                for part in ("seq", "comp"):
                    x = plo.get(part)
                    if isinstance(x, dict) and "ok" in x and not same_bag(x["ok"], pdo[part]["ok"]):
                        return (f"polars: {part} differs: Polars {describe(x['ok'])}, Pandas "
                                f"{describe(pdo[part]['ok'])}")
            return None
        return None

    def map_ok(self, case, rm):
        if case["op"] in ("to_rows", "to_blocks"):
            return spec_well_formed(case["spec"], need_blocks=True)
        return map_well_formed(rm)

    def polars_agree(self, pdo, real_out, names):
        for nm in names:
            x = real_out.get(nm)
            if isinstance(x, dict) and "ok" in x:
                self.count("polars_ok")
                if not same_bag(x["ok"], pdo["ok"]):
                    return f"polars: {nm} gives {describe(x['ok'])}, Pandas gives {describe(pdo['ok'])}"
            elif isinstance(x, dict):
                self.count("polars_raise_" + x.get("err", "?"))
        return None

    def finding(self, case, real_out, why):
        return None

    def nontrivial(self, case, real_out):
        if not isinstance(real_out, dict) or "pd" not in real_out:
            return False
        p = real_out["pd"]
        op = case["op"]
        if op in ("to_rows", "to_blocks", "transform"):
            return "ok" in p and len(p["ok"]["rows"]) >= 1
        if op == "inverse_roundtrip":
            return isinstance(p.get("back"), dict) and "ok" in p["back"] and len(p["back"]["ok"]["rows"]) >= 1
        if op == "compose":
            return isinstance(p.get("compose"), dict)
        return "ok" in p

    def shrink(self, case):
        """delete table rows / the extra column, simplify integers; a global budget keeps the framework's
        per-failure shrinking (it shrinks every failing case before de-duplicating) within seconds"""
        for c in self._shrink(case):
            if self.shrink_budget <= 0:
                return
            self.shrink_budget -= 1
            yield c

    def _shrink(self, case):
        if "table" in case:
            t = case["table"]
            for i in range(len(t["rows"])):
                c = dict(case)
                c["table"] = {"cols": t["cols"], "rows": t["rows"][:i] + t["rows"][i + 1:]}
                yield c
            if "extra" in t["cols"]:
                j = t["cols"].index("extra")
                c = dict(case)
                c["table"] = {"cols": t["cols"][:j] + t["cols"][j + 1:], "rows": [r[:j] + r[j + 1:] for r in t["rows"]]}
                yield c
            for i, r in enumerate(t["rows"]):
                for j, v in enumerate(r):
                    if v not in (None, 1) and isinstance(v, int):
                        c = dict(case)
                        rows = [list(x) for x in t["rows"]]
                        rows[i][j] = 1
                        c["table"] = {"cols": t["cols"], "rows": rows}
                        yield c


SUITES = [CData()]
