"""C12 — Printed pipelines rebuild to equal pipelines with identical results."""
import ast
import glob
import json
import os
import random
import warnings

from .. import modeltree as mt
from .. import oracles
from .. import pipes
from .. import suites_ops
from ..core import Suite
from ..propkit import OracleOnly, with_oracle

PROPERTY = "C12"
LEAN_MODULES = ["DAVerif.Props.C12", "DAVerif.Props.C12sem"]
THEOREMS = ["DAVerif.C12." + t for t in (
    # without the guard (Props/C12sem.lean): evaluating the printed text always succeeds and gives the same rows
    "C12_rebuild_is_replaceLeaves", "C12_rebuild_total", "C12_rebuild_reachable", "C12_rebuild_struct", "C12_rebuild_sem_all",
    "C12_rebuild_sem_all_rows", "C12_rebuild_column_order_not_preserved", "C12_rebuild_sem_scope_necessary",
    "C12_reachable_nf",
    "C12_pipeline_rebuild_exact_partial",
    "C12_pipeline_rebuild_partial",
    "C12_G_noRemerge_necessary",
    "C12_noRemerge_single_extend",
    "C12_guard_kept_unless_merge",
    "C12_rebuild_sem",
    "C12_rebuild_sem_partial",
    "C12_rebuild_eq_buildChain",
    "C12_expr_roundtrip",
    "C12_exprs_preserved",
    "C12_exprs_wf_of_steps",
    "C12_builders_accept_ill_formed",
)]
FINDING_REMERGE = "C12-extend-remerge"
# further theorems of these modules (supporting / intermediate statements of the property theorems above): audited
# for axioms on every run like the rest
THEOREMS += [
    "DAVerif.C12.C12_rebuild_all",
    "DAVerif.C12.C12_rebuild_sem_all_noscope",
    "DAVerif.C12.C12_rebuild_all_rows",
]
ASSUMPTIONS = [
    "the printed *characters* are outside the Lean model: which builder call is printed with which argument values "
    "(Ops/PrintCalls.lean `toCalls`) is tied to `to_python_src_` by suite k3_calls on every run (the real text is read "
    "back with Python's `ast`); CPython's `eval` of a method chain = receiver, then arguments, then the call",
    "expression arguments are printed by `Expression.to_python()` and read back by the library's parser: C13's model and "
    "theorem `C13_print_parse` (restated as C12_expr_roundtrip for the expressions of a pipeline); well-formedness of the "
    "expressions (`Expr.wf`: every node is what the parser's builder would build, literals re-read to themselves) is a "
    "hypothesis on the terms handed to the builders (true of parser output, checked by C13's suite expr_canon), the "
    "builders pass expressions through unchanged (C12_exprs_preserved)",
    "the builders are `Ops/Builder.lean` `build` (tied to view_representations.py by the inherited suite k2_build)",
    "table descriptions: name and column list only (qualifiers / sql_meta / head are not modelled; "
    "`table_name_was_set_by_user` is not compared by `==`)",
    "record maps of convert_records: the model carries the summary (needed, produced, repr of both specifications); that "
    "`repr(RecordMap)` evaluates to an equal RecordMap is C17's concern and is exercised by the oracle only",
    "pipelines are trees (a shared Python node is printed twice and rebuilt as two equal subtrees)",
]
NOT_PROVEN = [
    "CPython `eval` of the printed text (string / list / dict / int `repr` and their re-reading): oracle only",
    "black re-formatting (`to_python(pretty=True)`, `repr`, `str`): oracle only",
    "`pickle.dumps` / `pickle.loads`: oracle only",
    "finding C12-extend-remerge (N26): for pipelines outside the guard `noRemerge` the rebuilt pipeline is a differently "
    "merged, non-== pipeline (possibly with another declared column order); that it still evaluates to the same rows IS proved "
    "(C12_rebuild_sem_all under C18's scope with the record-transform laws C06 uses; C12_rebuild_sem_all_rows without any scope "
    "under the additional law ConvertColInvariant: a record transform answers a column permutation of its input with a column "
    "permutation of its output - assumed of Θ, instantiated for the example interpretation only)",
    "SQLNode and non-default TableDescription arguments (qualifiers, sql_meta) are not generated",
]
LEVEL_TEXT = ("Kernel-checked for every pipeline reachable through the builders (any number of steps, joins/concats of "
              "reachable pipelines) that satisfies the decidable guard noRemerge: evaluating the builder calls that "
              "`to_python_src_` prints (in the printers' normal form: partition_by=1 for an empty windowed partition, "
              "remapping+deletions as one dict, on-pairs, upper-case join type, omitted empty/None arguments) rebuilds "
              "exactly the same tree, hence a pipeline that is == (model of the repaired __eq__) and has the same "
              "result for every interpretation, configuration and environment; all simplifications of the builders "
              "(order_rows elimination, select_columns collapse, extend merge) are shown idempotent on reachable "
              "pipelines up to the one exception the guard names, which is shown necessary by the N26 counterexample. "
              "The expressions of a reachable pipeline are the expressions given to the builders, and each well-formed "
              "one is re-read from its printed tokens to itself (C13). Text, black and pickle are tested, not proven.")
LEVEL_NOTE = ("Trusted: Lean kernel; axioms propext/Classical.choice/Quot.sound; the shared hand-written models "
              "Ops/Builder.lean (k2_build), Ops/Eq.lean (C11's suite), Ops/PrintCalls.lean (k3_calls, this module); "
              "Python's `ast` module as the reader of the printed text on the harness side.")
RULE = ("type-directed random pipelines (pipes.gen_case without injected faults; depth 1..8 quick / 1..14 thorough, 1-3 "
        "tables, joins/concats with sub-pipelines, windows, hostile strings) plus a hand-written list of printing "
        "normal-form cases and the N26 family; each is built with the real library, printed, the text parsed with "
        "`ast` into the call tree (compared with the model's), evaluated (compared with the model's rebuild), and "
        "judged by oracle_C12 (eval of to_python / repr / pickle must == the original and evaluate identically on "
        "Pandas); non-trivial = the pipeline builds and has at least one step")

VERIF = os.path.dirname(os.path.dirname(os.path.dirname(os.path.abspath(__file__))))


# ------------------------------------------------------------------------------------------------
# the real text -> call tree (Python's ast; nothing of the Lean model is used here)
# ------------------------------------------------------------------------------------------------

class Unreadable(Exception):
    pass


def _lit(node):
    try:
        return ast.literal_eval(node)
    except Exception as e:  # noqa: BLE001
        raise Unreadable("not a literal: " + ast.dump(node)[:80]) from e


def _strs(v, what):
    if not isinstance(v, (list, tuple)) or not all(isinstance(x, str) for x in v):
        raise Unreadable(what + " is not a list of strings: " + repr(v)[:80])
    return list(v)


def _expr_json(text):
    if not isinstance(text, str):
        raise Unreadable("expression argument is not a string: " + repr(text)[:60])
    try:
        return mt.term_json(mt.parse_permissive(text, []))
    except Exception as e:  # noqa: BLE001 - the printed expression text is not accepted by the library's parser
        raise Unreadable("expression %r: %s" % (text[:60], type(e).__name__)) from e


def _ops_json(d):
    if not isinstance(d, dict):
        raise Unreadable("ops is not a dict")
    return [[k, _expr_json(v)] for k, v in d.items()]


def _eval_record_map(src):
    import data_algebra
    import data_algebra.cdata
    from data_algebra.expr_parse_fn import g_env
    env = dict(g_env)
    env["data_algebra"] = data_algebra
    lm = data_algebra.data_model.default_data_model()
    return eval(src, env, {lm.presentation_model_name: lm.module})


def _call_json(node, text):
    name = node.func.attr
    args = list(node.args)
    kw = {}
    for k in node.keywords:
        if k.arg is None or k.arg in kw:
            raise Unreadable("**kwargs / repeated keyword")
        kw[k.arg] = k.value

    def take(key, default=None, conv=_lit):
        if key in kw:
            return conv(kw.pop(key))
        return default

    def pos(i):
        if len(args) <= i:
            raise Unreadable(name + ": missing positional argument")
        return args[i]

    out = {"call": name}
    npos = 1
    if name == "extend":
        out["ops"] = _ops_json(_lit(pos(0)))
        pb = take("partition_by")
        if pb is not None and pb != 1 and not isinstance(pb, list):
            raise Unreadable("partition_by=" + repr(pb))
        out["partition_by"] = pb
        out["order_by"] = _strs(take("order_by", []), "order_by")
        out["reverse"] = _strs(take("reverse", []), "reverse")
    elif name == "project":
        out["ops"] = _ops_json(_lit(pos(0)))
        out["group_by"] = _strs(take("group_by", []), "group_by")
    elif name == "select_rows":
        out["expr"] = _expr_json(_lit(pos(0)))
    elif name in ("select_columns", "drop_columns"):
        out["cols"] = _strs(_lit(pos(0)), "columns")
    elif name == "order_rows":
        out["cols"] = _strs(_lit(pos(0)), "columns")
        out["reverse"] = _strs(take("reverse", []), "reverse")
        lim = take("limit")
        if lim is not None and (isinstance(lim, bool) or not isinstance(lim, int)):
            raise Unreadable("limit=" + repr(lim))
        out["limit"] = lim
    elif name == "rename_columns":
        d = _lit(pos(0))
        out["map"] = [[k, v] for k, v in d.items()]
    elif name == "map_columns":
        d = _lit(pos(0))
        out["map"] = [[k, v] for k, v in d.items()]
    elif name == "natural_join":
        npos = 0
        if "b" not in kw:
            raise Unreadable("natural_join without b=")
        out["b"] = _chain(kw.pop("b"), text)
        on = take("on", [])
        out["on"] = [v if isinstance(v, str) else list(v) for v in on]
        out["jointype"] = take("jointype")
    elif name == "concat_rows":
        npos = 0
        if "b" not in kw:
            raise Unreadable("concat_rows without b=")
        out["b"] = _chain(kw.pop("b"), text)
        for k in ("id_column", "a_name", "b_name"):
            if k not in kw:
                raise Unreadable("concat_rows without " + k)
            out[k] = take(k)
    elif name == "convert_records":
        rm = _eval_record_map(ast.get_source_segment(text, pos(0)))
        out["rm"] = mt.recmap_summary(rm)
    else:
        raise Unreadable("unknown method " + name)
    if len(args) != npos:
        out["extra_positional"] = len(args) - npos
    if kw:
        out["extra_keywords"] = sorted(kw)
    return out


def _chain(node, text):
    calls = []
    while isinstance(node, ast.Call) and isinstance(node.func, ast.Attribute):
        calls.append(node)
        node = node.func.value
    if not (isinstance(node, ast.Call) and isinstance(node.func, ast.Name) and node.func.id == "TableDescription"):
        raise Unreadable("chain does not start at TableDescription(...)")
    if node.args:
        raise Unreadable("TableDescription with positional arguments")
    kw = {k.arg: _lit(k.value) for k in node.keywords}
    table = {"name": kw.pop("table_name", None), "cols": _strs(kw.pop("column_names", None), "column_names")}
    if kw:
        table["extra_keywords"] = sorted(kw)
    return {"table": table, "calls": [_call_json(c, text) for c in reversed(calls)]}


def parse_printed(text):
    """the printed pipeline text -> {"table": {...}, "calls": [...]} (b= arguments nested the same way)"""
    tree = ast.parse(text.strip(), mode="eval")
    return _chain(tree.body, text.strip())


# ------------------------------------------------------------------------------------------------
# guard of finding C12-extend-remerge, computed with the library's own builder
# ------------------------------------------------------------------------------------------------

def _printed_partition(n):
    if not n.windowed_situation:
        return None
    return list(n.partition_by) if len(n.partition_by) > 0 else 1


def no_remerge(ops, seen=None):
    """no ExtendNode sits on an ExtendNode that the printed call, evaluated again, would be merged into"""
    seen = set() if seen is None else seen
    if id(ops) in seen:
        return True
    seen.add(id(ops))
    if ops.node_name == "ExtendNode" and ops.sources[0].node_name == "ExtendNode":
        src = ops.sources[0]
        with warnings.catch_warnings():
            warnings.simplefilter("ignore")
            r = src.extend_parsed_(parsed_ops=dict(ops.ops), partition_by=_printed_partition(ops),
                                   order_by=list(ops.order_by), reverse=list(ops.reverse))
        if r.sources[0] is not src:
            return False
    return all(no_remerge(s, seen) for s in ops.sources)


# ------------------------------------------------------------------------------------------------
# hand-written cases: the printers' normal forms, and the N26 family
# ------------------------------------------------------------------------------------------------

def _t(cols, kinds, rows):
    return {"cols": cols, "kinds": kinds, "rows": rows}


def _i(n):
    return {"i": n}


def _f(a, b=1):
    return {"f": [a, b]}


def _s(x):
    return {"s": x}


D = _t(["g", "x", "y", "i"], ["str", "int", "float", "int"],
       [[_s("a"), _i(1), _f(1, 2), _i(0)], [_s("a"), _i(-2), _f(3, 2), _i(1)], [_s("b"), _i(3), _f(-5, 2), _i(2)]])
E = _t(["g", "k", "z"], ["str", "int", "float"], [[_s("a"), _i(1), _f(2)], [_s("c"), _i(3), _f(7, 2)]])
D2 = _t(["g", "x", "y", "i"], ["str", "int", "float", "int"], [[_s("q"), _i(9), _f(1, 4), _i(7)]])


def _case(steps, tables=None, table="d"):
    return {"tables": tables or {"d": D}, "pipe": {"table": table, "steps": steps}, "_always": True}


def _ext(ops, **kw):
    return dict({"call": "extend", "ops": [[k, v] for k, v in ops]}, **kw)


def systematic_cases():
    de = {"d": D, "e": E}
    dd = {"d": D, "f": D2}
    out = [
        # N26 family: the merge replaces the upper node's assignments and does not look below
        _case([_ext([("n4", "x")]), _ext([("r", "y + n4")]), _ext([("r", "y")])]),
        _case([_ext([("n4", "x")]), _ext([("r", "y + n4"), ("s", "i")]), _ext([("r", "y")])]),
        _case([_ext([("a", "x + 1")]), _ext([("b", "a * 2")]), _ext([("b", "x")]), _ext([("c", "b + a")])]),
        _case([_ext([("m", "x.max()")], partition_by=["g"]), _ext([("n", "m.min()")], partition_by=["g"]),
               _ext([("n", "y.sum()")], partition_by=["g"])]),
        # extends that stay apart / merge at build time
        _case([_ext([("a", "x + 1")]), _ext([("b", "a + 1")])]),
        _case([_ext([("a", "x + 1")]), _ext([("b", "y + 1")])]),
        _case([_ext([("a", "x + 1")]), _ext([("a", "y + 1")])]),
        _case([_ext([("a", "x + 1")]), _ext([("m", "x.max()")], partition_by=1)]),
        _case([_ext([("a", "x + 1")]), _ext([("m", "x.max()")], partition_by=["g"])]),
        # windowed extends: partition_by=1, [], list; order_by; reverse
        _case([_ext([("m", "x.max()")], partition_by=1)]),
        _case([_ext([("m", "x.max()")])]),
        _case([_ext([("m", "x.max()")], partition_by=[])]),
        _case([_ext([("m", "x.max()")], partition_by="g")]),
        _case([_ext([("c", "x.cumsum()")], partition_by=["g"], order_by=["i"])]),
        _case([_ext([("c", "x.cumsum()")], order_by=["i", "y"], reverse=["y"])]),
        _case([_ext([("c", "_row_number()")], partition_by=1, order_by=["i"], reverse=["i"])]),
        _case([_ext([("c", "_size()")], partition_by=1)]),
        _case([_ext([("c", "x.shift(-1)")], partition_by=["g"], order_by=["i"])]),
        # project
        _case([{"call": "project", "ops": [["s", "x.sum()"], ["m", "y.mean()"]], "group_by": ["g"]}]),
        _case([{"call": "project", "ops": [["s", "x.sum()"]]}]),
        _case([{"call": "project", "ops": [], "group_by": ["g", "i"]}]),
        # rows / columns / order
        _case([{"call": "select_rows", "expr": "(x > -1) and not (g == 'a\\'b')"}]),
        _case([{"call": "select_rows", "expr": "(-x) ** 2 > 4"}]),
        _case([{"call": "select_rows", "expr": "x.is_in([-1, 2])"}]),
        _case([{"call": "select_rows", "expr": "x.is_in({-1})"}]),
        _case([_ext([("w", "x.mapv({-1: 2, 3: -4}, -9)")])]),
        _case([_ext([("w", "g.mapv({'a': 'it\\'s', 'b\\\\': '\"'}, '')")])]),
        _case([_ext([("w", "(3 > x) and (x > -1.5e-07)")])]),
        _case([{"call": "select_columns", "cols": ["y", "g"]}]),
        _case([{"call": "drop_columns", "cols": ["y"]}, {"call": "select_columns", "cols": ["x", "g"]}]),
        _case([{"call": "select_columns", "cols": ["x", "g", "y"]}, {"call": "select_columns", "cols": ["g"]}]),
        _case([{"call": "drop_columns", "cols": ["y"]}, {"call": "drop_columns", "cols": ["x"]}]),
        _case([{"call": "order_rows", "cols": ["g", "x"], "reverse": ["x"], "limit": 2}]),
        _case([{"call": "order_rows", "cols": ["g"]}]),
        _case([{"call": "order_rows", "cols": [], "limit": 1}]),
        _case([{"call": "order_rows", "cols": ["g"]}, _ext([("a", "x + 1")])]),
        _case([{"call": "order_rows", "cols": ["g"], "limit": 2}, {"call": "order_rows", "cols": ["x"], "reverse": ["x"]}]),
        # renaming
        _case([{"call": "rename_columns", "map": [["x2", "x"], ["g2", "g"]]}]),
        _case([{"call": "rename_columns", "map": [["x", "y"], ["y", "x"]]}]),
        _case([{"call": "map_columns", "map": [["x", "x2"], ["y", None], ["g", "g2"]]}]),
        _case([{"call": "map_columns", "map": [["y", None], ["x", "y"]]}]),
        _case([{"call": "map_columns", "map": [["y", None]]}]),
        # joins / concats
        _case([{"call": "natural_join", "b": {"table": "e"}, "on": ["g"], "jointype": "left"}], de),
        _case([{"call": "natural_join", "b": {"table": "e"}, "on": [["x", "k"], "g"], "jointype": "Inner"}], de),
        # one left column equated with two right columns, and order_rows(limit=0)
        _case([{"call": "natural_join", "b": {"table": "e2"}, "on": [["x", "k"], ["x", "k2"]], "jointype": "inner"}],
              {"d": D, "e2": _t(["k", "k2", "z"], ["int", "int", "float"], [[_i(1), _i(1), _f(2)], [_i(3), _i(1), _f(7, 2)]])}),
        _case([{"call": "order_rows", "cols": ["x"], "limit": 0}]),
        _case([{"call": "order_rows", "cols": ["x"], "limit": 0}, _ext([("a", "x + 1")])]),
        _case([{"call": "natural_join", "b": {"table": "e", "steps": [{"call": "rename_columns", "map": [["g9", "g"]]}]},
                "on": [], "jointype": "cross"}], de),
        _case([{"call": "natural_join", "b": {"table": "e", "steps": [{"call": "order_rows", "cols": ["k"]}]},
                "on": ["g"], "jointype": "full", "check": True}], de),
        _case([{"call": "natural_join", "b": {"table": "e", "steps": [_ext([("n4", "k")]), _ext([("r", "z + n4")]),
                                                                       _ext([("r", "z")])]},
                "on": ["g"], "jointype": "right"}], de),
        _case([{"call": "concat_rows", "b": {"table": "f"}}], dd),
        _case([{"call": "concat_rows", "b": {"table": "f", "steps": [{"call": "order_rows", "cols": ["i"]}]},
                "id_column": None, "a_name": "l'q", "b_name": "b\\s"}], dd),
        _case([{"call": "concat_rows", "b": {"table": "f"}, "id_column": "src", "a_name": "a\"", "b_name": ""}], dd),
        _case([{"call": "order_rows", "cols": ["g"]}, {"call": "concat_rows", "b": {"table": "f"}}], dd),
    ]
    return out


def _corpus_cases():
    out = []
    for p in sorted(glob.glob(os.path.join(VERIF, "corpus", "C12", "*.json"))):
        c = json.load(open(p))["case"]
        out.append(dict(c, _always=True))
    return out


# ------------------------------------------------------------------------------------------------
# suite k3_calls: printed text (read by ast) and its evaluation vs the model's toCalls / rebuild
# ------------------------------------------------------------------------------------------------

def _small_inputs(case):
    """nested joins multiply rows (24 rows, three cross joins: hours of Pandas time and tens of GB): the comparison of
    a pipeline with its re-evaluated text needs few rows, fewer the more joins there are"""
    txt = json.dumps(case.get("pipe"))
    nj = txt.count('"natural_join"') + txt.count('"ref"')
    cap = 6 if nj <= 1 else (3 if nj <= 3 else 2)
    if all(len(t.get("rows", [])) <= cap for t in case["tables"].values()):
        return case
    return dict(case, tables={n: dict(t, rows=t["rows"][:cap]) for n, t in case["tables"].items()})


def _oracle(case, **opts):
    """oracles.oracle_C12 + attribution of the N26 failures to finding C12-extend-remerge: only a `not-equal` of an
    evaluated text (never pickle, never a raise, never differing results), and only when the guard fails"""
    case = _small_inputs(case)
    ctx = opts.get("ctx") or oracles.Ctx(case)
    fs = oracles.oracle_C12(case, **dict(opts, ctx=ctx)) or []
    if fs and ctx.ops is not None:
        guard_ok = None
        for f in fs:
            k = f["kind"]
            if k.endswith("-not-equal") and not k.startswith("C12:pickle"):
                if guard_ok is None:
                    try:
                        guard_ok = no_remerge(ctx.ops)
                    except Exception:  # noqa: BLE001
                        guard_ok = True
                if not guard_ok:
                    f["finding"] = FINDING_REMERGE
    return fs


class K3Calls(Suite):
    """printed call tree, rebuilt pipeline, == and the guard: real library vs model"""
    name = "k3_calls"
    n_quick, n_thorough = 220, 2000
    gen_opts = dict(fault_rate=0.0, convert_records=0.15, extend_after_extend=0.5, overwrite=0.45)

    def __init__(self, **opts):
        self.opts = dict(self.gen_opts, **opts)
        self.distribution = {}
        self._fail = {}

    def gen(self, rng, tier):
        for c in systematic_cases():
            self.distribution["systematic"] = self.distribution.get("systematic", 0) + 1
            yield c
        n = self.n_quick if tier == "quick" else self.n_thorough
        for case in _gen_cases(self, rng, tier, n):
            yield {"tables": case["tables"], "pipe": case["pipe"]}

    def corpus(self):
        return _corpus_cases()

    def _build(self, case):
        with warnings.catch_warnings():
            warnings.simplefilter("ignore")
            return pipes.build(case)

    def real(self, case):
        try:
            ops = self._build(case)
        except Exception as e:  # noqa: BLE001
            return {"skip": "build: " + type(e).__name__}
        from data_algebra.expr_parse_fn import eval_da_ops
        with warnings.catch_warnings():
            warnings.simplefilter("ignore")
            text = ops.to_python(pretty=False)
            try:
                printed = parse_printed(text)
            except Unreadable as e:
                printed = {"unreadable": str(e)}
            except SyntaxError as e:
                printed = {"unreadable": "SyntaxError: " + str(e)[:80]}
            try:
                q = eval_da_ops(text, data_model_map=None)
                rebuilt = {"ok": mt.to_model_tree(q)}
                try:
                    equal = bool(ops == q) and bool(q == ops)
                except Exception:  # noqa: BLE001
                    equal = False
            except Exception as e:  # noqa: BLE001
                rebuilt = {"err": type(e).__name__}
                equal = False
            return {"printed": printed, "rebuilt": rebuilt, "equal": equal, "no_remerge": no_remerge(ops)}

    def driver_case(self, case):
        try:
            ops = self._build(case)
        except Exception:  # noqa: BLE001
            return {"ops": {"node": "table", "name": "skip", "cols": ["x"]}}
        return {"ops": mt.to_model_tree(ops)}

    def agree(self, real_c, model_c):
        if isinstance(real_c, dict) and real_c.get("skip"):
            return True
        return super().agree(real_c, model_c)

    def oracle(self, case, real_out):
        if not isinstance(real_out, dict):
            return "harness: " + str(real_out)[:200]
        if real_out.get("skip"):
            return None
        if "harness_exc" in real_out:
            return "harness: " + real_out["harness_exc"]
        c = dict(case)
        c.setdefault("meta", {})
        fs = _oracle(c, pretty=False)
        if not fs:
            self._fail.pop(self._sig(case), None)
            return None
        fs = sorted(fs, key=lambda f: 0 if not f.get("finding") else 1)
        f = fs[0]
        self._fail[self._sig(case)] = f
        return f"{f['kind']}: {f['detail']}"

    @staticmethod
    def _sig(case):
        return json.dumps(case.get("pipe"), sort_keys=True)

    def finding(self, case, real_out, why):
        f = self._fail.get(self._sig(case))
        return f.get("finding") if f else None

    def nontrivial(self, case, real_out):
        if not isinstance(real_out, dict) or real_out.get("skip"):
            return False
        p = real_out.get("printed") or {}
        return bool(p.get("calls"))

    def shrink(self, case):
        for c in pipes.shrink_case(case):
            yield {"tables": c["tables"], "pipe": c["pipe"]}


def _gen_cases(suite, rng, tier, n):
    """pipes.gen_case with a generator failure (pipes.py is a snapshot) losing one case only"""
    for _ in range(n):
        sub = random.Random(rng.getrandbits(64))
        try:
            case = pipes.gen_case(sub, tier, **suite.opts)
        except Exception as e:  # noqa: BLE001
            k = "generator-error:" + type(e).__name__
            suite.distribution[k] = suite.distribution.get(k, 0) + 1
            continue
        for c in case["meta"].get("calls", []):
            suite.distribution[c] = suite.distribution.get(c, 0) + 1
        yield case


class Builders(suites_ops.K2Build):
    """K2 correspondence (inherited): every builder call on the library and on `build`"""
    name = "k2_build"
    n_quick, n_thorough = 250, 3000

    def gen(self, rng, tier):
        n = self.n_quick if tier == "quick" else self.n_thorough
        for case in _gen_cases(self, rng, tier, n):
            yield {"tables": {k: {"cols": v["cols"], "kinds": v["kinds"], "rows": []} for k, v in case["tables"].items()},
                   "pipe": case["pipe"], "meta": {"fault": case["meta"].get("fault")}}


class TextOracle(OracleOnly):
    """the textual layer: eval of repr (black) / to_python, pickle — oracle only"""
    name = "c12_text_oracle"
    n_quick, n_thorough = 110, 900
    gen_opts = dict(fault_rate=0.0, convert_records=0.3, extend_after_extend=0.5, overwrite=0.45)

    def corpus(self):
        return _corpus_cases()

    def gen(self, rng, tier):
        sc = systematic_cases()
        for c in (sc if tier == "thorough" else sc[:12]):
            yield dict(c, meta={})
        n = self.n_quick if tier == "quick" else self.n_thorough
        for case in _gen_cases(self, rng, tier, n):
            yield {"tables": case["tables"], "pipe": case["pipe"], "meta": case.get("meta", {})}


SUITES = [Builders(), K3Calls(), with_oracle(TextOracle, _oracle, name="c12_text_oracle")]
