"""
Shared pieces of the four "executor model = reference meaning" property modules (C08, C09, C16, C27).

* `k4(n_quick, n_thorough)`   a K4Sem subclass with its own sample sizes (the oracles run 4 backends per case)
* `attributed(oracle_fn, cands)`  wraps an `oracles.oracle_Cxx`: a failure the oracle has labelled with a *candidate*
  id (N..: a defect outside DESIGN's list, found on the unchanged tree) is given the known-finding id of this property
  (`cands`: candidate id -> finding id).  The oracle sets a candidate only under that candidate's guard on the case
  (e.g. N11 only for a Pandas CROSS join with an empty side), so the mapping never hides anything else; failures
  without finding and without a mapped candidate stay plain violations.  `extra(case, failure) -> id | None` is a
  module's own guard predicate for a failure the oracle leaves unlabelled.
* `suite(...)`   with_oracle(...) + the corpus of `corpus/Cxx/*.json` (witness cases run first, the oracle always
  looks at them)
"""
import json
import os
import random

from .. import pipes
from ..core import VERIF
from ..propkit import with_oracle
from ..suites_ops import K4Sem


def n_joins(pipe):
    """number of natural_join steps anywhere in a Pipe (each may multiply the row count by the other side's rows)"""
    if isinstance(pipe, dict):
        return (1 if pipe.get("call") == "natural_join" else 0) + sum(n_joins(v) for v in pipe.values())
    if isinstance(pipe, list):
        return sum(n_joins(v) for v in pipe)
    return 0


def k4(n_quick, n_thorough, max_joins=3):
    class _K4(K4Sem):
        def gen(self, rng, tier):
            # as K4Sem.gen (same random stream), plus two guards:
            # * chained joins over duplicate keys grow like rows^(joins+1) (seen: 7^6 rows, minutes in the nested-loop
            #   reference): pipelines with more than `max_joins` joins are skipped (counted in the distribution);
            # * pipes.gen_case can raise IndexError in step_natural_join (no fresh name left for a differently named
            #   key, seen with diff_keys=0.45 in the thorough tier): such a draw is skipped and counted.
            n = self.n_quick if tier == "quick" else self.n_thorough
            for _ in range(n):
                seed = rng.getrandbits(64)
                try:
                    case = pipes.gen_case(random.Random(seed), tier, **self.opts)
                except IndexError:
                    self.distribution["skipped: generator IndexError"] = \
                        self.distribution.get("skipped: generator IndexError", 0) + 1
                    continue
                if n_joins(case["pipe"]) > max_joins:
                    k = "skipped: more than %d joins" % max_joins
                    self.distribution[k] = self.distribution.get(k, 0) + 1
                    continue
                for c in case["meta"].get("calls", []):
                    self.distribution[c] = self.distribution.get(c, 0) + 1
                yield {"tables": case["tables"], "pipe": case["pipe"]}
        # The executor model has no dtypes: comparison / logic / if_else over operands that are null at run time
        # (pandas: object columns of None, `None or x`, `!=` True ...) are outside it (pipegen's N1/N17).  K4Sem keeps them
        # out statically (null_cmp=0), but a bool column turned all-null by a LEFT/FULL join with an empty side slips
        # through.  Such a case (decidable guard `null_compare` of oracles.compute_guards, on the Pandas evaluation) is
        # counted and not compared; every other difference is a correspondence break as usual.
        def real_canon(self, out, case=None):
            self._cur_case = case
            return super().real_canon(out, case)

        def agree(self, real_c, model_c):
            ok = super().agree(real_c, model_c)
            if not ok and getattr(self, "_cur_case", None) is not None:
                try:
                    from .. import oracles
                    if "null_compare" in oracles.Ctx(dict(self._cur_case, meta={})).guards():
                        self.distribution["not compared: logic over run-time nulls"] = \
                            self.distribution.get("not compared: logic over run-time nulls", 0) + 1
                        return True
                except Exception:
                    pass
            return ok

    _K4.n_quick, _K4.n_thorough = n_quick, n_thorough
    _K4.__name__ = "K4Sem"
    return _K4


def attributed(oracle_fn, cands, extra=None):
    def f(case, **opts):
        out = []
        for x in oracle_fn(case, **opts) or []:
            if not x.get("finding") and x.get("candidate") in cands:
                x = dict(x, finding=cands[x["candidate"]])
            elif not x.get("finding") and extra is not None:
                fid = extra(case, x)
                if fid:
                    x = dict(x, finding=fid)
            # core.py groups / shrinks failures by the text before the first ':' of "<kind>: <detail>"; the oracles'
            # kinds are "Cxx:what", so without this every failure of a property would count as the same one and the
            # shrinker could drift from a new violation to a known finding.  "Cxx/what[finding-id]" keeps them apart.
            x = dict(x, kind=x["kind"].replace(":", "/") + (f"[{x['finding']}]" if x.get("finding") else ""))
            out.append(x)
        return out
    f.__name__ = getattr(oracle_fn, "__name__", "oracle")
    return f


def load_corpus(prop, suite_name):
    out = []
    d = os.path.join(VERIF, "corpus", prop)
    if os.path.isdir(d):
        for fn in sorted(os.listdir(d)):
            if fn.endswith(".json"):
                obj = json.load(open(os.path.join(d, fn)))
                if obj.get("suite") == suite_name:
                    out.append(dict(obj["case"], _always=True))
    return out


def suite(prop, oracle_fn, cands=None, n_quick=300, n_thorough=2400, every=1, oracle_opts=None, extra=None, **bias):
    s = with_oracle(k4(n_quick, n_thorough), attributed(oracle_fn, cands or {}, extra), every=every,
                    oracle_opts=oracle_opts, **bias)
    s.corpus = lambda: load_corpus(prop, s.name)
    return s
