"""C07 — Pipeline composition equals sequential application and is associative."""
import json
import os
import random
import warnings

from .. import modeltree as mt
from .. import oracles
from .. import pipes
from ..core import Suite
from ..propkit import with_oracle
from ..suites_ops import K4Sem

PROPERTY = "C07"
LEAN_MODULES = ["DAVerif.Props.C07"]
THEOREMS = ["DAVerif." + t for t in (
    "C07_replace_leaves_sem", "C07_compose_sem", "C07_compose_total", "C07_dom_cod", "C07_assoc_sem", "C07_assoc_sem_perm", "C07_assoc_not_structural",
    "replaceLeaves_sem", "replaceSingle", "compose_sem_valid", "sem_congrC", "actOn_inv", "actOn_boundary",
    "actOn_key", "replaceSingle_total", "actOn_total")]
ASSUMPTIONS = [
    "the composition model (lean/DAVerif/Ops/Compose.lean: replaceLeaves, actOn; /repo after fixes D1, D2, 8e6df35) is the "
    "library's replace_leaves / act_on: tied by suite k3_compose (a >> b on code and model, incl. boundary mismatches) on every run",
    "the builder and executor models are the library's: tied by k2_build / k4_sem (inherited through k3_compose's trees and k4_sem here)",
    "record transforms return their declared, pairwise different columns and respect row / column order (ConvertOK, ConvertInvariant)",
    "'same result' is the framework's comparison rule (same error, or same table up to row and column order, `≈ᶜ`): the composed "
    "pipeline may declare its columns in another order than b (C07_dom_cod gives the columns up to order)",
    "b (and for associativity c, b >> c) is in C18's scope on the substituted input: WindowsTotal / AggsOrderFree hypotheses",
    "several table keys in the second pipeline with a keyed first pipeline (the `b.key` branch of act_on) is not modelled: the "
    "model returns an error there; the generator only composes into single-key pipelines",
]
NOT_PROVEN = [
    "structural associativity ((a>>b)>>c == a>>(b>>c)) is false in general (DAVerif.C07_assoc_not_structural, known finding "
    "C07-assoc-not-structural); associativity is proved semantically (C07_assoc_sem)",
    "DataOpArrow composition and eval with a map of pipelines delegate to act_on / replace_leaves; their agreement is the oracle's",
]
LEVEL_TEXT = ("Kernel-checked for all reachable pipelines a, b (c), every interpretation and both executor configurations: if "
              "a >> b succeeds, the composed pipeline evaluates to the same error, or the same table up to row and column "
              "order, as b on the environment that binds b's table to the result of a (a failing a makes the composition "
              "fail alike); replace_leaves with any map of valid pipelines is substitution; the composed pipeline reads "
              "exactly a's tables and declares b's columns (up to order); a >> b succeeds whenever b has one table key whose column "
              "set is a's (no operator kind makes composition raise); composition is associative SEMANTICALLY "
              "((a>>b)>>c and a>>(b>>c) evaluate alike) while a counterexample theorem shows it is not associative "
              "structurally. The proofs re-use the C06 per-builder lemmas because replace_leaves re-runs the builders.")
LEVEL_NOTE = ("Trusted: Lean kernel; axioms propext/Classical.choice/Quot.sound; the shared hand-written models Ops/Builder.lean, "
              "Ops/Compose.lean, Sem/Eval.lean (tied to the code by k3_compose and k4_sem on every run). Associativity is "
              "proved semantically only. /repo needs fixes D1, D2 and 8e6df35 (found by this property) for the check to pass.")
RULE = ("pipes.gen_case chains cut at a random position into a (over the input tables) and b (unary chain over a fresh table "
        "`_mid1` with a's declared columns; one case in six with a perturbed column set to exercise the boundary check; one in "
        "eight with the columns listed in another order): k3_compose compares `a >> b` (tree or error class) on code and "
        "model; k4_sem + oracle_C07: (a>>b).eval vs b.eval(a.eval), eval with a map, DataOpArrow, dom/cod, associativity on "
        "triples; non-trivial = the chain could be cut / evaluates to >= 1 row")

_HERE = os.path.dirname(os.path.dirname(os.path.dirname(os.path.abspath(__file__))))
_CORPUS = os.path.join(_HERE, "corpus", "C07")
P = pipes
L = pipes.L


def _ival(i):
    return {"i": i}


def _table(cols, rows):
    return {"cols": cols, "kinds": ["int"] * len(cols), "rows": [[_ival(v) for v in r] for r in rows]}


def _witnesses():
    d = _table(["g", "x", "y"], [[1, 1, 30], [1, 2, 20], [1, 3, 10], [2, 3, 30], [2, 4, 40]])

    def case(steps, name=None):
        return {"tables": {"d": d}, "pipe": {"table": "d", "steps": steps}, "_always": True, "_name": name}

    ext = lambda ops, **kw: dict({"call": "extend", "ops": [[k, v] for k, v in ops]}, **kw)
    return [
        # D1: composition through select_rows
        case([ext([("z", "x + 1")]), {"call": "select_rows", "expr": "z > 2"}], name="d1_select_rows"),
        # D2: map_columns with deletions
        case([ext([("z", "x + 1")]), {"call": "map_columns", "map": [["z", "w"], ["y", None]]}], name="d2_map_deletions"),
        # 8e6df35: windowed extend declared with partition_by=1 whose function does not imply a window
        case([ext([("z", "x + 1")]), ext([("n", "_size()")], partition_by=1)], name="partition_one_size"),
        case([ext([("z", "x + 1")]), ext([("n", "_size()")], partition_by=1), ext([("m", "x.max()")], partition_by=1)],
             name="partition_one_merge"),
        # merges / collapses re-done by replace_leaves
        case([ext([("a", "x + 1")]), ext([("b", "y + 1")]), ext([("c", "g + 1")])], name="merge_three"),
        case([{"call": "order_rows", "cols": ["x"], "reverse": [], "limit": None},
              {"call": "select_columns", "cols": ["g", "x"]}, {"call": "select_columns", "cols": ["x"]}],
             name="order_select_select"),
        case([{"call": "project", "ops": [["s", "x.sum()"]], "group_by": ["g"]}, ext([("t", "s + 1")]),
              {"call": "rename_columns", "map": [["gg", "g"]]}], name="project_extend_rename"),
        case([ext([("a", "x")]), ext([("b", "a")]), ext([("b", "x")])], name="assoc_shape"),
        # consecutive ordered windows composed across the cut: merged only for the identical window specification
        case([ext([("r1", "_row_number()")], partition_by=["g"], order_by=["x", "y"]),
              ext([("r2", "_row_number()")], partition_by=["g"], order_by=["y", "x"])], name="window_order_permuted"),
        case([ext([("c1", "x.cumsum()")], partition_by=["g"], order_by=["x", "y"], reverse=["y"]),
              ext([("c2", "x.cumsum()")], partition_by=["g"], order_by=["x", "y"], reverse=["x"])], name="window_reverse_differs"),
        # both extends assign `a`; the second also reads `b`, which the first produced (and which exists in the input)
        case([ext([("a", "x * 2"), ("y", "x + 1")]), ext([("a", "x * 3"), ("c", "y + 1")])], name="merge_reads_product"),
    ]


def _corpus_files():
    out = []
    if os.path.isdir(_CORPUS):
        for f in sorted(os.listdir(_CORPUS)):
            if f.endswith(".json"):
                try:
                    j = json.load(open(os.path.join(_CORPUS, f)))
                    c = j.get("case", j)
                    c["_always"] = True
                    out.append(c)
                except Exception:
                    pass
    return out


def _apply(ops, step, builder):
    with warnings.catch_warnings():
        warnings.simplefilter("ignore")
        return P.apply_step(ops, step, builder.pipe)


def split_pair(case):
    """cut the main chain at case['cut'] -> (a, b) real pipelines; b over the fresh table `_mid1` whose columns are a's
    declared columns, optionally perturbed (case['boundary']: 'drop' / 'extra' / 'shuffle').  None when not cuttable."""
    root, steps, _ = oracles.flatten_main(case["pipe"])
    if root is None:
        return None
    steps = [s for s, _ in steps]
    k = case.get("cut", 0)
    if not (0 < k < len(steps)):
        return None
    seg_a, seg_b = steps[:k], steps[k:]
    if any("b" in s for s in seg_b) or oracles._has_ref(seg_a):
        return None
    b = P.Builder(case["tables"])
    a = b.table(root)
    for s in seg_a:
        a = _apply(a, s, b)
    cols = list(a.column_names)
    how = case.get("boundary")
    if how == "drop" and len(cols) > 1:
        cols = cols[:-1]
    elif how == "extra":
        cols = cols + ["zz_extra"]
    elif how == "shuffle":
        cols = list(reversed(cols))
    cur = L.TableDescription(table_name="_mid1", column_names=cols)
    for s in seg_b:
        cur = _apply(cur, s, b)
    return a, cur


def _safe_gen_case(rng, tier, opts):
    """pipes.gen_case, skipping the rare seeds on which the shared generator itself raises (never a verdict)"""
    for _ in range(5):
        try:
            return pipes.gen_case(random.Random(rng.getrandbits(64)), tier, **opts)
        except Exception:
            continue
    return None


class K3Compose(Suite):
    """`a >> b` on the real objects and `Ops.actOn b a` on the model: the composed tree, or the error class"""
    name = "k3_compose"
    n_quick, n_thorough = 200, 3000
    gen_opts = dict(fault_rate=0.0, convert_records=0.0, shared=0.2, extend_after_extend=0.55, overwrite=0.4,
                    interior_order=0.25, select_after_drop=0.35)

    def __init__(self, **opts):
        self.opts = dict(self.gen_opts, **opts)
        self.distribution = {}

    def corpus(self):
        out = []
        for c in _witnesses() + _corpus_files():
            n = len([s for s, _ in oracles.flatten_main(c["pipe"])[1]])
            for k in range(1, n):
                cc = {"tables": {t: {"cols": v["cols"], "kinds": v["kinds"], "rows": []} for t, v in c["tables"].items()},
                      "pipe": c["pipe"], "cut": k, "boundary": None}
                out.append(cc)
        return out

    def gen(self, rng, tier):
        n = self.n_quick if tier == "quick" else self.n_thorough
        for _ in range(n):
            case = _safe_gen_case(rng, tier, self.opts)
            if case is None:
                continue
            root, steps, _ = oracles.flatten_main(case["pipe"])
            ns = len(steps)
            if root is None or ns < 2:
                continue
            k = rng.randrange(1, ns)
            u = rng.random()
            how = "drop" if u < 0.08 else "extra" if u < 0.16 else "shuffle" if u < 0.29 else None
            for s, _ in steps[k:]:
                self.distribution[s["call"]] = self.distribution.get(s["call"], 0) + 1
            if how:
                self.distribution["boundary:" + how] = self.distribution.get("boundary:" + how, 0) + 1
            yield {"tables": {t: {"cols": v["cols"], "kinds": v["kinds"], "rows": []} for t, v in case["tables"].items()},
                   "pipe": case["pipe"], "cut": k, "boundary": how}

    def _pair(self, case):
        try:
            with warnings.catch_warnings():
                warnings.simplefilter("ignore")
                pr = split_pair(case)
            if pr is None:
                return None
            a, b = pr
            if not (mt.is_tree_shaped(a) and mt.is_tree_shaped(b)):
                return None
            return a, b
        except Exception:
            return None

    def real(self, case):
        pr = self._pair(case)
        if pr is None:
            return {"skip": True}
        a, b = pr
        try:
            with warnings.catch_warnings():
                warnings.simplefilter("ignore")
                c = a >> b
        except Exception as e:
            return {"err": type(e).__name__}
        return {"ok": mt.to_model_tree(c)}

    def driver_case(self, case):
        pr = self._pair(case)
        if pr is None:
            t = {"node": "table", "name": "skip", "cols": ["x"]}
            return {"a": t, "b": t}
        a, b = pr
        return {"a": mt.to_model_tree(a), "b": mt.to_model_tree(b)}

    def real_canon(self, out, case=None):
        if isinstance(out, dict) and out.get("skip"):
            return {"ok": {"node": "table", "name": "skip", "cols": ["x"], "column_names": ["x"]}}
        return out

    def nontrivial(self, case, real_out):
        return not (isinstance(real_out, dict) and real_out.get("skip"))

    def oracle(self, case, real_out):
        """composition of boundary-matching pipelines must not raise; mismatching column sets must be refused"""
        if not isinstance(real_out, dict) or real_out.get("skip"):
            return None
        how = case.get("boundary")
        if how in ("drop", "extra"):
            pr = self._pair(case)
            if pr is not None and set(pr[0].column_names) != set(pr[1].get_tables()["_mid1"].column_names) \
                    and "err" not in real_out:
                return "C07:boundary-not-checked: a >> b accepted although the column sets differ"
            return None
        if "err" in real_out:
            return f"C07:compose-raised: a >> b raised {real_out['err']} although the boundary columns match"
        return None

    def shrink(self, case):
        for c in pipes.shrink_case({"tables": case["tables"], "pipe": case["pipe"]}):
            n = len(oracles.flatten_main(c["pipe"])[1])
            for k in range(1, n):
                yield {"tables": c["tables"], "pipe": c["pipe"], "cut": k, "boundary": case.get("boundary")}


def oracle_c07(case, **opts):
    fs = oracles.oracle_C07(case, **opts) or []
    for f in fs:
        if f.get("kind") == "C07:assoc-structural" and not f.get("finding"):
            f["finding"] = "C07-assoc-not-structural"
    return fs


class _K4(K4Sem):
    # small tables also in the thorough tier (see c06.py)
    gen_opts = dict(K4Sem.gen_opts, extend_after_extend=0.55, overwrite=0.4, interior_order=0.25,
                    select_after_drop=0.35, shared=0.2, max_rows=8, max_depth=11, empty_tables=0.0)
    n_quick, n_thorough = 90, 1200

    def corpus(self):
        return [dict(c) for c in _witnesses() + _corpus_files()]

    def agree(self, real_c, model_c):
        if super().agree(real_c, model_c):
            return True
        # pandas corner outside these properties: a null of an all-null (object / float) column that went through
        # string concatenation is rendered as the string 'nan' (e.g. max() over an empty intermediate result, then
        # %+%); the dtype-free model keeps it null.  Counted, not compared.
        try:
            rc = json.loads(json.dumps(real_c))
            if isinstance(rc, dict) and "ok" in rc:
                changed = False
                for r in rc["ok"]["rows"]:
                    for i, v in enumerate(r):
                        if isinstance(v, dict) and v.get("s") == "nan":
                            r[i] = None
                            changed = True
                if changed and super().agree(rc, model_c):
                    self.nan_string_skips = getattr(self, "nan_string_skips", 0) + 1
                    return True
        except Exception:
            pass
        return False

    def gen(self, rng, tier):
        n = self.n_quick if tier == "quick" else self.n_thorough
        for _ in range(n):
            case = _safe_gen_case(rng, tier, self.opts)
            if case is None:
                continue
            if any(len(t["rows"]) == 0 for t in case["tables"].values()):
                # empty input frames: a k4_sem (dtype inference) matter, not part of this property (see c06.py)
                self.distribution["skipped:empty-input"] = self.distribution.get("skipped:empty-input", 0) + 1
                continue
            for c in case["meta"].get("calls", []):
                self.distribution[c] = self.distribution.get(c, 0) + 1
            yield {"tables": case["tables"], "pipe": case["pipe"]}


SUITES = [K3Compose(), with_oracle(_K4, oracle_c07)]
