"""
C19 tie, no source hook: pandas' in-place entry points are wrapped FROM OUTSIDE, once per process, and are inert unless a
`Trace` is active.  During one evaluation a Trace records

  * every DataFrame object created (NDFrame.__init__), with a strong reference so that `id()`s are never re-used,
  * every activation of `PandasModelBase._eval_value_source` (one executor step): the node, the frames its source steps
    returned, the frame it returned (id, columns, rows at return time), the exception that left it,
  * every in-place write performed BY THE REPOSITORY'S OWN CODE (the immediate caller's file lies in the data_algebra
    package): `DataFrame.__setitem__`, `__delitem__`, `insert`, `pop`, `update`, `.loc/.iloc/.at/.iat[...] = `,
    `frame.columns = / frame.index =`, and every DataFrame method called with `inplace=True`,
    attributed to the innermost active step and classified by target: `src0` / `src1` (the very frame a source step
    returned), `loc` (created while this very step was running), `input` (one of the caller's frames),
    `other`.

`model_case(...)` turns the real operator DAG plus the observed hints (row counts, failing step) into the JSON the Lean
driver suite `own` parses; `observed(...)` gives the same canonical outcome from the trace.
"""
import os
import sys
import warnings

_STATE = {"installed": False, "trace": None, "repo_dir": None}

WRITE_NAMES = {"__setitem__": "setitem", "__delitem__": "delitem", "insert": "insert", "pop": "pop", "update": "update"}


def _caller_in_repo(depth=2):
    f = sys._getframe(depth)
    fn = f.f_code.co_filename
    return fn.startswith(_STATE["repo_dir"])


def _key_text(key):
    if isinstance(key, str):
        return key
    if isinstance(key, tuple) and len(key) == 2 and isinstance(key[1], str):
        return key[1]
    return ""


def install():
    """wrap the entry points (idempotent)"""
    if _STATE["installed"]:
        return
    import pandas as pd
    from pandas.core import indexing
    from pandas.core.generic import NDFrame
    import data_algebra
    import data_algebra.pandas_base as pb
    _STATE["repo_dir"] = os.path.dirname(os.path.abspath(data_algebra.__file__)) + os.sep
    DF = pd.DataFrame

    def wrap_method(cls, name, tag, inplace_only=False):
        orig = getattr(cls, name)

        def w(self, *a, **k):
            tr = _STATE["trace"]
            if tr is not None and isinstance(self, DF) and (not inplace_only or k.get("inplace", False)) \
                    and _caller_in_repo():
                tr.on_write(tag, self, _key_text(a[0]) if a else "")
            return orig(self, *a, **k)
        w.__name__ = name
        w.__wrapped__ = orig
        setattr(cls, name, w)

    for name, tag in WRITE_NAMES.items():
        wrap_method(DF, name, tag)
    # every public DataFrame method with an `inplace` parameter
    import inspect
    for name in dir(DF):
        if name.startswith("_"):
            continue
        try:
            fn = getattr(DF, name)
            if not callable(fn) or isinstance(fn, property):
                continue
            if "inplace" in inspect.signature(fn).parameters:
                wrap_method(DF, name, name if name == "reset_index" else name + "_inplace", inplace_only=True)
        except (TypeError, ValueError):
            continue

    def wrap_indexer(cls, tag):
        orig = cls.__setitem__

        def w(self, key, value):
            tr = _STATE["trace"]
            if tr is not None and isinstance(self.obj, DF) and _caller_in_repo():
                tr.on_write(tag, self.obj, _key_text(key))
            return orig(self, key, value)
        w.__wrapped__ = orig
        cls.__setitem__ = w

    for cname, tag in (("_LocIndexer", "locset"), ("_iLocIndexer", "ilocset"), ("_AtIndexer", "atset"),
                       ("_iAtIndexer", "iatset")):
        wrap_indexer(getattr(indexing, cname), tag)

    orig_setattr = DF.__setattr__

    def df_setattr(self, name, value):
        tr = _STATE["trace"]
        if tr is not None and name in ("columns", "index") and _caller_in_repo():
            tr.on_write("set_" + name, self, "")
        return orig_setattr(self, name, value)
    DF.__setattr__ = df_setattr

    orig_init = NDFrame.__init__

    def nd_init(self, *a, **k):
        tr = _STATE["trace"]
        if tr is not None and isinstance(self, DF):
            tr.on_create(self)
        return orig_init(self, *a, **k)
    NDFrame.__init__ = nd_init

    orig_ev = pb.PandasModelBase._eval_value_source

    def ev(self, s, *, data_map):
        tr = _STATE["trace"]
        if tr is None:
            return orig_ev(self, s, data_map=data_map)
        act = tr.enter(s)
        try:
            r = orig_ev(self, s, data_map=data_map)
        except BaseException as e:
            tr.leave_exc(act, e)
            raise
        tr.leave(act, r)
        return r
    pb.PandasModelBase._eval_value_source = ev
    _STATE["installed"] = True


class Act:
    __slots__ = ("node", "children", "writes", "ret", "ret_cols", "ret_rows", "exc", "origin")

    def __init__(self, node):
        self.node = node
        self.children = []
        self.writes = []  # (tag, target object, column text)
        self.ret = None
        self.ret_cols = None
        self.ret_rows = None
        self.exc = None
        self.origin = False


class Trace:
    """use as a context manager around exactly one evaluation"""

    def __init__(self, inputs):
        self.inputs = list(inputs)  # the caller's frames
        self.input_ids = {id(d) for d in self.inputs}
        self.created = {}  # id -> object (strong reference)
        self.created_by = {}  # id -> the activation (step) that was running when the object was created
        self.stack = []
        self.done = []  # completed activations, completion order
        self.failed = None  # the activation in whose own body the exception arose
        self.stray_writes = []  # writes outside any step (e.g. in eval()/transform() themselves)
        self.all_writes = []

    def __enter__(self):
        install()
        _STATE["trace"] = self
        return self

    def __exit__(self, *a):
        _STATE["trace"] = None
        return False

    def on_create(self, obj):
        self.created[id(obj)] = obj
        self.created_by[id(obj)] = self.stack[-1] if self.stack else None

    def on_write(self, tag, obj, col):
        self.all_writes.append((tag, obj, col))
        if self.stack:
            self.stack[-1].writes.append((tag, obj, col))
        else:
            self.stray_writes.append((tag, obj, col))

    def enter(self, node):
        a = Act(node)
        if self.stack:
            self.stack[-1].children.append(a)
        self.stack.append(a)
        return a

    def leave(self, act, r):
        self.stack.pop()
        act.ret = r
        self.created.setdefault(id(r), r)  # keep it alive in any case
        try:
            act.ret_cols = [str(c) for c in r.columns]
            act.ret_rows = int(r.shape[0])
        except Exception:
            act.ret_cols, act.ret_rows = [], 0
        self.done.append(act)

    def leave_exc(self, act, e):
        self.stack.pop()
        act.exc = type(e).__name__
        act.origin = not any(c.exc for c in act.children)
        if act.origin and self.failed is None:
            self.failed = act

    # ---- classification -----------------------------------------------------------------------
    def target_class(self, act, obj):
        i = id(obj)
        kids = [c.ret for c in act.children]
        if len(kids) > 0 and kids[0] is obj:
            return "src0"
        if len(kids) > 1 and kids[1] is obj:
            return "src1"
        if i in self.input_ids:
            return "input"
        if i in self.created_by and self.created_by[i] is act:
            return "loc"
        return "other"

    def ret_class(self, act):
        return self.target_class(act, act.ret)

    def writes_of(self, act):
        return [[t, self.target_class(act, o), c] for t, o, c in act.writes]


def observed(tr, pre_error=None):
    """canonical outcome of the traced run (same shape as the driver's answer)"""
    nodes = []
    for a in tr.done:
        nodes.append({"ret": tr.ret_class(a), "cols": a.ret_cols, "rows": a.ret_rows, "writes": tr.writes_of(a)})
    err = None
    if tr.failed is not None:
        err = {"cls": tr.failed.exc, "writes": tr.writes_of(tr.failed)}
    elif pre_error is not None:
        err = {"cls": pre_error, "writes": []}
    stray = [[t, "input" if id(o) in tr.input_ids else "other", c] for t, o, c in tr.stray_writes]
    return {"nodes": nodes, "err": err, "stray": stray}


# ------------------------------------------------------------------------------------------------
# the model's input: node kinds + what the executor looks at + observed hints
# ------------------------------------------------------------------------------------------------

def _arg0(opk):
    import data_algebra.expr_rep as er
    args = getattr(opk, "args", None)
    if not args:
        return None
    a = args[0]
    if isinstance(a, er.ColumnReference):
        return {"c": a.column_name}
    if isinstance(a, er.Value):
        return {"v": str(a.value)}
    return {"v": "?" + str(a)}


def _spec(rs):
    if rs is None:
        return None
    ct = rs.control_table
    keys = list(rs.control_table_keys)
    nonkey = [c for c in ct.columns if c not in keys]
    return {"record_keys": list(rs.record_keys), "control_keys": keys, "control_cols": [str(c) for c in ct.columns],
            "cells": [[str(ct[c].iloc[i]) for c in nonkey] for i in range(ct.shape[0])],
            "row_cols": [str(c) for c in rs.row_columns], "block_cols": [str(c) for c in rs.block_columns]}


def _groups_in(act, rs):
    """number of groups `data.groupby(control_table_keys)` finds in the frame the source step returned"""
    try:
        src = act.children[0].ret
        keys = list(rs.control_table_keys)
        sub = src[keys].dropna()
        return int(sub.drop_duplicates().shape[0])
    except Exception:
        return 0


def model_case(tr, ops, frames, entry, head_ids=None):
    """
    the `own` driver case for the traced run of `ops` on `frames` ({name: DataFrame}, insertion order = heap order).
    The tree is the operator DAG with shared nodes expanded, in evaluation order; the k-th completed activation belongs
    to the k-th node in post-order.
    """
    names = list(frames.keys())
    heap = [{"cols": [str(c) for c in frames[k].columns], "rows": int(frames[k].shape[0])} for k in names]
    dm = [[k, i] for i, k in enumerate(names)]
    acts = list(tr.done)
    pos = [0]
    failed = tr.failed
    used = []

    def take(node):
        if pos[0] < len(acts) and acts[pos[0]].node is node:
            a = acts[pos[0]]
            pos[0] += 1
            return a
        return None

    def fail_of(node):
        if failed is not None and failed.node is node and not used:
            return failed
        return None

    def walk(n):
        nn = n.node_name
        if nn == "TableDescription":
            take(n)
            head = None
            if head_ids is not None:
                head = head_ids.get(n.table_name)
            return {"k": "table", "name": n.table_name, "cols": list(n.column_names), "head": head}
        kids = [walk(s) for s in n.sources]
        a = take(n)
        f = None
        if a is None:
            fa = fail_of(n)
            # the failing activation is the first not-completed node whose sources all completed
            if fa is not None and len(fa.children) == len(n.sources) and all(c.exc is None for c in fa.children):
                used.append(fa)
                f = {"writes": len(fa.writes), "cls": fa.exc}
                a = fa
        rows = a.ret_rows if (a is not None and a.ret_rows is not None) else 0
        j = {"fail": f}
        if nn == "ExtendNode":
            j.update(k="extend", src=kids[0], keys=list(n.ops.keys()), arg0=[_arg0(v) for v in n.ops.values()],
                     windowed=bool(n.windowed_situation or len(n.partition_by) > 0 or len(n.order_by) > 0),
                     partition_by=list(n.partition_by), order_by=list(n.order_by), all_scalars=False)
        elif nn == "ProjectNode":
            j.update(k="project", src=kids[0], keys=list(n.ops.keys()), arg0=[_arg0(v) for v in n.ops.values()],
                     group_by=list(n.group_by), groups=rows)
        elif nn == "SelectRowsNode":
            j.update(k="select_rows", src=kids[0], keep=rows)
        elif nn == "SelectColumnsNode":
            j.update(k="select_columns", src=kids[0], cols=list(n.column_selection))
        elif nn == "DropColumnsNode":
            j.update(k="drop_columns", src=kids[0], cols=list(n.column_deletions))
        elif nn == "OrderRowsNode":
            j.update(k="order_rows", src=kids[0], limit=n.limit)
        elif nn == "MapColumnsNode":
            j.update(k="map_columns", src=kids[0], remap=[[k, v] for k, v in n.column_remapping.items()],
                     dels=list(n.column_deletions or []))
        elif nn == "RenameColumnsNode":
            j.update(k="rename_columns", src=kids[0], remap=[[k, v] for k, v in n.reverse_mapping.items()])
        elif nn == "ConvertRecordsNode":
            rm = n.record_map
            gi = _groups_in(a, rm.blocks_in) if (a is not None and rm.blocks_in is not None) else 0
            j.update(k="convert_records", src=kids[0], blocks_in=_spec(rm.blocks_in), blocks_out=_spec(rm.blocks_out),
                     groups_in=gi)
        elif nn == "NaturalJoinNode":
            j.update(k="natural_join", l=kids[0], r=kids[1], on_a=list(n.on_a), on_b=list(n.on_b),
                     produced=list(n.columns_produced()), rows=rows)
        elif nn == "ConcatRowsNode":
            j.update(k="concat_rows", l=kids[0], r=kids[1], id_column=n.id_column)
        else:
            raise ValueError("unsupported node " + nn)
        return j

    with warnings.catch_warnings():
        warnings.simplefilter("ignore")
        pipe = walk(ops)
    return {"heap": heap, "dm": dm, "pipe": pipe, "entry": entry}
