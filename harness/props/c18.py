"""C18 — Results ignore input row order, and order_rows orders and limits."""
from .. import oracles
from ..propkit import OracleOnly, with_oracle
from ..suites_ops import K4Sem

PROPERTY = "C18"
LEAN_MODULES = ["DAVerif.Props.C18"]
THEOREMS = ["DAVerif." + t for t in (
    "C18_perm_invariant_gen", "C18_perm_invariant", "C18_window_after_project_total",
    "C18_order_after_project_total", "C18_partition_list_order", "C18_order_sorted", "C18_order_sorted_spec",
    "C18_order_perm", "C18_order_limit", "C18_order_limit_least", "C18_order_limit_unique",
    "C18_scope_necessary_window", "C18_scope_necessary_limit", "C18_aggs_necessary")]
ASSUMPTIONS = [
    "the relational model `sem` (lean/DAVerif/Sem/Eval.lean) is the Pandas executor: tied by suite k4_sem on every run",
    "aggregates are invariant under permutation of their argument list (hypothesis AggsOrderFree of the theorem; true of "
    "every catalogued aggregate except first/last, which the property's scope excludes)",
    "pandas frames with a non-default index: the model has no index; covered by the oracle only",
    "SQL and Polars backends: the theorem is about the executor model; their row-order independence is the oracle's "
    "metamorphic check (and C01/C03 relate them to the executor model)",
]
NOT_PROVEN = ["convert_records steps (Θ.convert is abstract in the theorem: oracle only, suite c18_records)", "re-indexing of input frames (oracle only)", "SQLite / Polars executions (oracle only; see C01, C03)"]
LEVEL_TEXT = ("Kernel-checked for every pipeline, interpretation and environment: permuting the rows of the inputs "
              "permutes the result (per-operator lemmas for every node kind incl. joins, grouped projects, ordered and "
              "unordered windows, order_rows with and without limit) under exactly the property's scope hypothesis "
              "(window orders total per partition or order-free window functions; a limit's cut not inside a tie), "
              "with necessity witnesses for each hypothesis; a final order_rows yields the rows sorted by the given "
              "columns/reversals (nulls last), a permutation of the input, and with a limit exactly the first n of that "
              "order. The executor model is tied to pandas_base.py by differential execution on random pipelines.")
LEVEL_NOTE = ("Trusted: Lean kernel; axioms propext/Classical.choice/Quot.sound; the hand-written executor model `sem` "
              "(validated by k4_sem on every run); pandas sort/groupby/merge primitives as modelled; index handling, "
              "SQL and Polars are outside the theorem (oracle).")
RULE = ("random type-directed pipelines (pipes.gen_case, total window orders, final order_rows in a quarter of the cases) "
        "on random small tables; each is executed on Pandas and on the model (k4_sem) and judged by oracle_C18 (row "
        "permutation / re-indexing metamorphic test on every backend, sortedness and limit prefix); non-trivial = the "
        "pipeline evaluates to at least one row")

class PivotDirect(OracleOnly):
    """input tables that are ALREADY in block form (record key, measure, value) pivoted by the first step: the
    permutation of the input rows reaches blocks_to_rowrecs itself (after an unpivot every block arrives in the same
    record order, which hides a pivot that depends on arrival order)"""
    name = "c18_pivot_direct"
    n_quick, n_thorough = 60, 600

    def gen(self, rng, tier):
        import random
        from .. import pipes
        n = self.n_quick if tier == "quick" else self.n_thorough
        for _ in range(n):
            r = random.Random(rng.getrandbits(64))
            nrec, labels = r.randint(2, 5), r.sample(["m1", "m2", "m3", "lo", "hi"], r.randint(2, 3))
            two_keys = r.random() < 0.3
            recs = r.sample(range(1, 9), nrec)
            rows = []
            for k in recs:
                for l in labels:
                    rows.append(([k, "g%d" % (k % 2)] if two_keys else [k]) + [l, r.choice([None, r.randint(-3, 9)])])
            r.shuffle(rows)
            keys = ["k", "k2"] if two_keys else ["k"]
            d = pipes.mk_table(keys + ["measure", "value"], ["int"] + (["str"] if two_keys else []) + ["str", "int"], rows)
            srcs = ["v_" + l for l in labels]
            control = pipes.mk_table(["measure", "value"], ["str", "str"], [[l, s_] for l, s_ in zip(labels, srcs)])
            spec = {"control": control, "record_keys": keys, "control_keys": ["measure"], "strict": True}
            steps = [{"call": "convert_records", "blocks_in": spec, "blocks_out": None}]
            if r.random() < 0.5:
                steps.append({"call": "extend", "ops": [["t", srcs[0] + " + " + srcs[1]]], "partition_by": None,
                              "order_by": None, "reverse": None})
            self.distribution["pivot_direct"] = self.distribution.get("pivot_direct", 0) + 1
            yield {"tables": {"d": d}, "pipe": {"table": "d", "steps": steps}, "meta": {"calls": ["convert_records"]}}


SUITES = [with_oracle(K4Sem, oracles.oracle_C18, every=2, final_order=0.45),
          with_oracle(PivotDirect, oracles.oracle_C18, name="c18_pivot_direct"),
          # record transforms are outside the executor model (Θ.convert is abstract): their row-order independence is
          # judged by the oracle alone, on pipelines biased towards convert_records
          with_oracle(OracleOnly, oracles.oracle_C18, name="c18_records", convert_records=6.0)]
