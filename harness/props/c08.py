"""C08 — Results have exactly the columns the pipeline declares (executor-model part + oracle on every backend)."""
from .. import oracles
from .refsem import suite

PROPERTY = "C08"
LEAN_MODULES = ["DAVerif.Props.C08", "DAVerif.Props.C01core", "DAVerif.Props.C04merge", "DAVerif.Props.C01joins", "DAVerif.Props.C03", "DAVerif.Props.C01all", "DAVerif.Props.C16nested"]   # C26_reachable_cols is reached through C08's import of Props.C26
THEOREMS = ["DAVerif." + t for t in (
    "C08_cols", "C08_rows_wf", "C08_cols_nodup", "C08_cols_set", "C08_select_order", "sem_ok_of_tables", "C08_empty",
    "C26_reachable_cols",
    # the SQL generator (modelled engine) and the Polars executor return the declared columns too
    "C08_sql_cols", "Sql.C08_sql_cols_merges", "C08_sql_cols_joins", "C08_rename_twice_necessary", "C03_polars_sound_strong",
    # every dialect configuration (merges on/off), and joins nested anywhere in the pipeline
    "C08_sql_cols_all", "C08_sql_cols_nested")]
ASSUMPTIONS = [
    "the relational model `sem` (lean/DAVerif/Sem/Eval.lean) is the Pandas executor: tied by suite k4_sem on every run "
    "(column set always, column order after a final select_columns)",
    "record transforms return the columns their record map declares (hypothesis ConvertOK of the theorems; C17's theorem)",
    "join key pairs are 'sane' (same name on both sides, or each name absent from the other side): outside this fragment "
    "pandas.merge leaks a `<c>_tmp_right_col` scratch column (known finding C08-pandas-join-key-also-right-column)",
    "SQL and Polars backends: the SQL-side theorems are in DAVerif.Sql (other modules); here they are judged by the oracle",
]
NOT_PROVEN = ["SQLite / PostgreSQL-text / Polars column sets: kernel-checked for the modelled SQL generator + engine (C08_sql_cols, _merges, _joins, _all, _nested) and the Polars executor model (C03_polars_sound_strong); their real executions are the oracle's",
              "column ORDER other than after select_columns (not claimed by the property, see DESIGN §6 C08)"]
LEVEL_TEXT = ("Kernel-checked for every pipeline, interpretation, configuration (Pandas / reference) and environment: a "
              "returned table has exactly the declared column list, every row has exactly those columns (no scratch "
              "column, none missing), the list is duplicate-free for every pipeline reachable by builder calls "
              "(C26_reachable_cols: build preserves the structural invariant WF), a final select_columns fixes the order, and "
              "evaluation succeeds with the declared columns on empty inputs (it can only fail at a table lookup or "
              "inside a record transform). The executor model is tied to pandas_base.py by differential execution; "
              "every backend's column set is checked by the oracle on the data and on emptied inputs.")
LEVEL_NOTE = ("Trusted: Lean kernel; axioms propext/Classical.choice/Quot.sound; the hand-written executor model `sem` "
              "(validated by k4_sem on every run). SQL/Polars are outside these theorems (oracle; SQL-layer theorems elsewhere).")
RULE = ("random type-directed pipelines (pipes.gen_case) biased to overwriting extends, dead projects (every aggregate "
        "overwritten/dropped), select after drop, empty input tables and a final select_columns; each is executed on "
        "Pandas and on the model (k4_sem) and judged by oracle_C08 on Pandas, SQLite, PostgreSQL text and Polars, on "
        "the data and with every input emptied; non-trivial = the pipeline evaluates to at least one row")

# candidate ids of harness/oracles.py -> known-finding ids of this property (see known_findings.json)
CANDS = {"N19-pandas-join-key-also-right-column-leaks-scratch": "C08-pandas-join-key-also-right-column"}

def _rename_twice(case, failure):
    """the guard of finding C08-rename-source-twice: a rename_columns names one source column more than once, and the
    failure is about the columns of an SQL result"""
    from .. import pipes
    if "sqlite" not in failure["kind"] and "pg" not in failure["kind"]:
        return None
    for st in pipes.pipe_steps(case["pipe"]):
        if st.get("call") == "rename_columns":
            olds = [o for _, o in st.get("map") or []]
            if len(olds) != len(set(olds)):
                return "C08-rename-source-twice"
    return None


SUITES = [suite(PROPERTY, oracles.oracle_C08, CANDS, extra=_rename_twice, n_quick=110, n_thorough=600,
                max_rows=10, overwrite=0.5, dead_project=0.5, select_after_drop=0.3, empty_tables=0.15, extend_after_extend=0.5,
                step_weights={"select_columns": 2.0, "drop_columns": 1.5, "project": 1.5, "rename_columns": 1.5,
                              "map_columns": 1.5})]
