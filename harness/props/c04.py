"""C04 — SQL formatting and optimization options never change query results.

Suites
  k5_with            `to_with_form` (no cache) vs the model's `toWithForm none`                     (shared suite)
  c04_semopt_oracle  rows returned by the real SQL under use_with / use_cte_elim / merges vs the model's `semToSql`
                     (shared k5_semopt), with the
                     oracle `oracles.oracle_C04` on every k-th case: every combination use_with x use_cte_elim x
                     annotate x initial_commas x indent x extend-merge on/off, on SQLite and on the PostgreSQL dialect
                     (stand-in engine), must return the same table
  c04_stub           hand-built NearSQL trees (the Lean counterexamples, random key assignments) through the real
                     `to_with_form(cte_cache={})`: every CTE referred to must be emitted before its use
  c04_scope          a user table named like a generated query name (finding D24): nested form vs WITH form
"""
import json
import os
import random
import re
import warnings

from .. import oracles, pipes, suites_sql
from ..core import VERIF, Suite
from ..propkit import OracleOnly, with_oracle

L = pipes.L

PROPERTY = "C04"
LEAN_MODULES = ["DAVerif.Props.C04", "DAVerif.Props.C04merge", "DAVerif.Props.C01all", "DAVerif.Props.C04key"]
THEOREMS = ["DAVerif." + t for t in (
    "C04_names_unique", "C04_wf", "C04_with_form_sound", "C04_with_form_scoped_sound",
    "C04_with_form_scoped_necessary", "C04_cte_elim_sound_key", "C04_with_form_sound_key", "C04_cte_elim_sound",
    "C04_to_sql_options_sound", "C04_key_faithful_of_shape", "C04_names_irrelevant",
    # the stub before fix N28: semantic faithfulness was not enough, faithful + closed was
    "C04_cte_elim_closed_necessary", "C04_cte_elim_old_sound_key",
    # extend merge on/off (Props/C04merge.lean, proved by the SQL-A proofs)
    "Sql.C04_merge_option_sound", "Sql.C04_merge_invariant",
    # with joins / concat_rows in the pipeline (Props/C01all.lean)
    "C04_merge_option_sound_all", "C04_merge_invariant_all",
    # the cache key is faithful on translated pipelines, so the option theorems hold without a key hypothesis (Props/C04key.lean)
    "C04_bound_subquery_sound", "C04_key_text_determines_node", "C04_render_injective", "C04_key_faithful",
    "C04_cte_elim_sound_translated", "C04_to_sql_options_sound_translated", "C04_to_sql_options_engine_order",
    "C04_to_sql_options_sound_reachable", "C04_key_faithful_nonempty_necessary", "C04_render_collision",
    "C04_quote_assumption_consistent", "C04_options_sound_shared_instance")]
# further theorems of these modules (supporting / intermediate statements of the property theorems above): audited
# for axioms on every run like the rest
THEOREMS += [
    "DAVerif.Sql.C04_merge_option_sound_res",
    "DAVerif.Sql.C04_merge_option_sound_lifted",
    "DAVerif.C04_merge_invariant_nested",
]
LEAN_MODULES += ['DAVerif.Props.C16nested']
ASSUMPTIONS = [
    "the NearSQL translation `toNearSql`, the WITH form `toWithForm` and the bag semantics `semNear` of the SQL text "
    "(lean/DAVerif/Sql/*.lean) are the real code and the engine: tied by suites k5_with and k5_semopt on every run",
    "KeyFaithful (sub-queries with the same CTE-cache key = ops_key + bound columns denote the same table) is PROVED of translated "
    "pipelines (C04_key_faithful) under: the C01 scope `Good cfg env p` (no emulated RIGHT/FULL join: SQLite, which emulates them, "
    "has CTE elimination switched off), every bound column list non-empty (BoundColsNonempty, proved necessary), the model-renderer "
    "guard RenderOK (no '=' inside a renamed column name: a collision of the MODEL's renderOps only, the real str(node) differs "
    "there) and the assumption QuoteOK about Lean's opaque String.quote (injective with a recognisable head; a hypothesis of the "
    "theorems, not an axiom; C04_quote_assumption_consistent shows it is satisfiable; the compiled String.quote was spot-checked)",
    "SQL scoping of CTE names over table names is modelled by semWithC (Sql/WithFormG.lean), not by the shared semNear",
    "the real cache key contains Python set-iteration orders: the theorems hold for every key function that is "
    "semantically faithful on the query, whatever it renders",
    "the PostgreSQL dialect text is executed on SQLite 3.40.1 (no PostgreSQL server): that engine mis-evaluates a WHERE "
    "pushed into a sub-query over a native RIGHT/FULL JOIN; a row difference between two PostgreSQL-dialect texts "
    "containing such a join is discounted when the SQLite dialect (joins emulated) agrees on every option (counted as "
    "standin_skips in the evidence)",
    "SQLite's 'parser stack overflow' on the deeply nested text of a long pipeline is a capacity limit of the engine, not "
    "a result (engine_limit_skips in the evidence)",
]
NOT_PROVEN = [
    "annotate / initial_commas / sql_indent: no token-level rendering model (oracle only; C14's "
    "cleanAnnotation_no_line_break / C14_comment_inert show an annotation comment cannot change the token stream)",
    "extend merge on/off: Sql.C04_merge_option_sound (Props/C04merge.lean) covers the fragment of its hypotheses; the "
    "rest is oracle only",
    "C04_key_faithful is proved under the guards named in the assumptions; pipelines with an EMPTY bound column list somewhere "
    "(consumers that only count rows) and dialects with emulated RIGHT/FULL joins are outside it (k5_semopt + oracle only)",
]
LEVEL_TEXT = ("Kernel-checked for every interpretation, engine configuration, environment and NearSQL tree: the query "
              "names toNearSql generates are pairwise different; the WITH form without cache evaluates to the nested "
              "query, errors included, also under SQL's scoping of CTE names when no table is named like a generated "
              "query name (the guard is necessary: D24); CTE elimination is sound for every cache-key function that is "
              "semantically faithful on the query (the cache is consulted before a sub-query is converted: fix N28); for "
              "the stub before that fix semantic faithfulness was not enough (counterexample, reproduced on the pre-fix "
              "code) and faithful + closed was. The "
              "faithfulness of the real key, the extend-merge option and the three rendering options are covered by "
              "the differential oracle only.")
LEVEL_NOTE = ("Trusted: Lean kernel; axioms propext/Classical.choice/Quot.sound; the shared SQL-layer model (validated by "
              "k5_near / k5_with / k5_semopt on every run); SQLite as the engine, also as stand-in for the PostgreSQL "
              "dialect text; hypothesis KeyFaithful.")
RULE = ("random type-directed pipelines biased to shared sub-DAGs (pipes.gen_case shared=0.8) on random small tables; "
        "to_with_form skeletons and the rows under random (dialect, merges, use_with, use_cte_elim) are compared with "
        "the model; every k-th case is executed under all 24 option combinations x 2 merge settings x 2 dialects "
        "(oracle_C04); hand-built NearSQL trees with random (semantically faithful) key assignments go through the "
        "real to_with_form and the model's toWithFormG; "
        "non-trivial = the WITH form has at least one step / the pipeline returns a table")

N27 = "N27-union-branch-order-limit"
N28 = "N28-cte-elim-dangling-reference"
D24 = oracles.LIVE_FINDINGS["D24"]

_GEN_NAME = re.compile(r"^(table_reference|extend|project|select_rows|order_rows|map_columns|rename|natural_join|"
                       r"concat_rows|convert_records_blocks_in|convert_records_blocks_out)_\d+$")


# ------------------------------------------------------------------------------------------------
# hand-built NearSQL trees through the real to_with_form
# ------------------------------------------------------------------------------------------------

def _q(s):
    return '"' + s + '"'


def real_tree(t):
    """tree spec -> real NearSQL.  spec: ["t"] (table d(x)) | ["s", name, key, sub] | ["u", name, key, l, r]"""
    import data_algebra.near_sql as NS
    if t[0] == "t":
        return NS.NearSQLTable(terms={"x": None}, table_name="d", quoted_table_name=_q("d"))
    if t[0] == "s":
        return NS.NearSQLUnaryStep(terms={"x": None}, query_name=t[1], quoted_query_name=_q(t[1]),
                                   sub_sql=real_tree(t[3]).to_bound_near_sql(columns=["x"]), ops_key=t[2])
    return NS.NearSQLBinaryStep(terms={"x": None}, query_name=t[1], quoted_query_name=_q(t[1]),
                                sub_sql1=real_tree(t[3]).to_bound_near_sql(columns=["x"], force_sql=True),
                                joiner="UNION ALL",
                                sub_sql2=real_tree(t[4]).to_bound_near_sql(columns=["x"], force_sql=True), ops_key=t[2])


def _refs(n, acc):
    cls = type(n).__name__
    if cls == "NearSQLCommonTableExpression":
        acc.append(n.query_name)
    elif cls == "NearSQLUnaryStep":
        _refs(n.sub_sql.near_sql, acc)
    elif cls == "NearSQLBinaryStep":
        _refs(n.sub_sql1.near_sql, acc)
        _refs(n.sub_sql2.near_sql, acc)
    return acc


def with_form_outcome(tree, cache):
    """names of the emitted steps, and the CTE names each step / the last step refers to"""
    wl = real_tree(tree).to_with_form(cte_cache={} if cache else None)
    return {"steps": [[suites_sql._unq(k), sorted(_refs(c.near_sql, []))] for k, c in wl.previous_steps],
            "last": sorted(_refs(wl.last_step, []))}


def dangling(outcome):
    seen = set()
    for name, refs in outcome["steps"]:
        for r in refs:
            if r not in seen:
                return f"step {name} refers to CTE {r} which is not emitted before it"
        seen.add(name)
    for r in outcome["last"]:
        if r not in seen:
            return f"the final query refers to CTE {r} which is never emitted"
    return None


# Props/C04.lean C04Ex.qDang: N0 u (N u M'), N0 ~ N (key K), N reads through M, M ~ M' (key KM)
Q_DANG = ["u", "u1", "U1", ["s", "n0", "K", ["t"]],
          ["u", "u2", "U2", ["s", "n", "K", ["s", "m", "KM", ["t"]]], ["s", "m2", "KM", ["t"]]]]
Q_SHARE = ["u", "u", "U", ["s", "a", "K", ["t"]], ["s", "b", "K", ["t"]]]

def _gen_tree(rng, counter, depth, keys):
    """random tree; keys are drawn from a small pool but only ever shared between sub-trees of the same SHAPE
    (so equal keys denote equal tables: the hypothesis KeyFaith of the theorems holds by construction)"""
    def shape(t):
        return "t" if t[0] == "t" else ("s" + shape(t[3]) if t[0] == "s" else "u" + shape(t[3]) + shape(t[4]) + ".")
    if depth <= 0 or rng.random() < 0.25:
        return ["t"]
    if rng.random() < 0.55:
        sub = _gen_tree(rng, counter, depth - 1, keys)
        t = ["s", None, None, sub]
    else:
        t = ["u", None, None, _gen_tree(rng, counter, depth - 1, keys), _gen_tree(rng, counter, depth - 1, keys)]
    counter[0] += 1
    t[1] = f"q_{counter[0]}"
    # semantic class: selects are identities, so a tree denotes (number of leaves) copies of d: key by leaf count,
    # plus an optional variant tag so that not every equal table shares a key
    leaves = shape(t).count("t")
    t[2] = f"L{leaves}v{rng.randrange(2)}"
    return t


class Stub(Suite):
    """the real `to_with_form(cte_cache={})` on hand-built trees whose keys are semantically faithful, compared with
    `toWithFormG cacheKey` of Sql/WithFormG.lean (= the shared `toWithForm`), and checked for dangling CTE references
    (finding N28, fixed: a dangling reference is a violation)"""
    name = "c04_stub"
    driver_suite = "c04_stub"

    def driver_case(self, case):
        return {"tree": case["tree"], "cache": bool(case["cache"])}

    def __init__(self):
        self.distribution = {"hits": 0, "steps": 0}

    def corpus(self):
        return [{"tree": Q_DANG, "cache": True, "_always": True}, {"tree": Q_SHARE, "cache": True},
                {"tree": Q_DANG, "cache": False}]

    def gen(self, rng, tier):
        n = 300 if tier == "quick" else 6000
        for _ in range(n):
            yield {"tree": _gen_tree(rng, [0], rng.randint(1, 5), None), "cache": rng.random() < 0.85}

    def real(self, case):
        try:
            return with_form_outcome(case["tree"], case["cache"])
        except Exception as e:
            return {"err": type(e).__name__}

    def oracle(self, case, real_out):
        if not isinstance(real_out, dict) or "steps" not in real_out:
            return f"to_with_form-raised: {real_out}"
        d = dangling(real_out)
        if d:
            return "dangling-cte-reference: " + d
        names = [s[0] for s in real_out["steps"]]
        if len(set(names)) != len(names):
            return f"duplicate-cte-name: {names}"
        return None

    def nontrivial(self, case, real_out):
        ok = isinstance(real_out, dict) and len(real_out.get("steps", [])) > 0
        if ok:
            self.distribution["steps"] += len(real_out["steps"])
        return ok

    def shrink(self, case):
        t = case["tree"]

        def subs(t):
            if t[0] == "s":
                yield t[3]
                for s in subs(t[3]):
                    yield ["s", t[1], t[2], s]
            elif t[0] == "u":
                yield t[3]
                yield t[4]
                for s in subs(t[3]):
                    yield ["u", t[1], t[2], s, t[4]]
                for s in subs(t[4]):
                    yield ["u", t[1], t[2], t[3], s]
        for s in subs(t):
            if s[0] != "t":
                yield dict(case, tree=s)


# ------------------------------------------------------------------------------------------------
# the option oracle with attribution of the known findings
# ------------------------------------------------------------------------------------------------

def _texts(ctx, dialect):
    combos = [(uw, ce, an, ic, ind) for uw in (True, False) for ce in (False, True)
              for an, ic, ind in ((True, False, " "), (False, True, "    "), (True, True, " "))]
    out = []
    for merges in (True, False):
        model = L.SQLite.SQLiteModel() if dialect == "sqlite" else L.PostgreSQL.PostgreSQLModel()
        model.allow_extend_merges = merges
        for uw, ce, an, ic, ind in combos:
            fo = L.SQLFormatOptions(use_with=uw, use_cte_elim=ce, annotate=an, initial_commas=ic, sql_indent=ind,
                                    warn_on_method_support=False, warn_on_novel_methods=False)
            try:
                with warnings.catch_warnings():
                    warnings.simplefilter("ignore")
                    out.append(((merges, uw, ce), model.to_sql(ctx.ops, sql_format_options=fo)))
            except Exception:
                pass
    return out


def _explain(case, f):
    """name an `options-change-result` failure: when every differing combination shows, in its own error message, the
    signature of a defect that was repaired (N27 09ea88a, N28) the failure is reported under that id - neither is a known
    finding any more, so a reappearance is a VIOLATION; engine limits of the stand-in are discounted (see ASSUMPTIONS)"""
    dialect = "sqlite" if ":sqlite-" in f["kind"] else "pg"
    ctx = oracles.Ctx(case)
    texts = _texts(ctx, dialect)
    if not texts:
        return [f]
    model = L.SQLite.SQLiteModel() if dialect == "sqlite" else L.PostgreSQL.PostgreSQLModel()
    outs = oracles._exec_texts(model, [t for _, t in texts], ctx.tables, pg=(dialect == "pg"))
    base = outs[texts[0][1]]
    if "ok" not in base:
        return [f]
    seen, unexplained, standin = {}, 0, 0
    for (merges, uw, ce), t in texts[1:]:
        o = outs[t]
        if "skip" in o:
            continue
        if "err" in o:
            msg = o.get("msg", "")
            m = re.search(r"no such table: (\S+)", msg)
            if "parser stack overflow" in msg:
                # SQLite's parser depth limit on the deeply nested text of a long pipeline (the WITH form is flat):
                # a capacity limit of the engine, not a result
                standin += 1
                ENGINE_LIMIT_SKIPS[0] += 1
            elif (not uw) and "should come after UNION ALL" in msg:
                seen.setdefault(N27, (merges, uw, ce, msg[-70:]))
            elif uw and ce and dialect == "pg" and m and _GEN_NAME.match(m.group(1).strip("\"'")):
                seen.setdefault(N28, (merges, uw, ce, msg[-70:]))
            else:
                unexplained += 1
        elif pipes.same_table(base["ok"], o["ok"], ordered=False) is not None:
            # the stand-in engine (SQLite 3.40.1) mis-evaluates a WHERE pushed into a sub-query over a native
            # RIGHT / FULL JOIN (`SELECT * FROM (a RIGHT JOIN b … UNION ALL …) WHERE m IS NULL` returns rows with
            # m = 3; the materialised sub-query filters correctly).  Only the PostgreSQL dialect renders these joins
            # natively: a row difference between two of its texts that both contain such a join is not held against
            # the library when the SQLite dialect (same pipeline, joins emulated by LEFT JOINs) agrees on every option.
            if dialect == "pg" and _STANDIN_JOIN.search(t) and _sqlite_dialect_agrees(case):
                standin += 1
            else:
                unexplained += 1
    if standin and not unexplained and not seen:
        STANDIN_SKIPS[0] += 1
        return []
    if unexplained or not seen:
        return [f]
    return [oracles.fail(f["kind"], f"{f['detail']} [{fid}: {why}]", fid) for fid, why in sorted(seen.items())]


_STANDIN_JOIN = re.compile(r"\b(RIGHT|FULL) JOIN\b")
STANDIN_SKIPS = [0]
ENGINE_LIMIT_SKIPS = [0]
_AGREE = {}


def _sqlite_dialect_agrees(case):
    k = json.dumps(case.get("pipe"), sort_keys=True)
    if k not in _AGREE:
        _AGREE.clear()
        _AGREE[k] = not [f for f in (oracles.oracle_C04(case, dialects=("sqlite",)) or [])
                         if f["kind"].endswith("options-change-result")]
    return _AGREE[k]


def oracle_c04(case, **opts):
    out = []
    for f in oracles.oracle_C04(case, **opts) or []:
        if f["kind"].endswith("options-change-result") and not f.get("finding"):
            out.extend(_explain(case, f))
        else:
            out.append(f)
    return out


def _load_corpus(suite_name):
    out = []
    d = os.path.join(VERIF, "corpus", "C04")
    if os.path.isdir(d):
        for fn in sorted(os.listdir(d)):
            if fn.endswith(".json"):
                obj = json.load(open(os.path.join(d, fn)))
                if obj.get("suite") == suite_name:
                    out.append(obj["case"])
    return out


class SemOpt(suites_sql.K5SemOpt):
    """k5_semopt (rows under use_with / use_cte_elim / merges vs the shared `semToSql`) with capped case sizes"""
    name = "k5_semopt"
    n_quick, n_thorough = 144, 560
    max_result_rows = 300

    def __init__(self, **opts):
        super().__init__(**opts)
        self.driver_suite = "k5_semopt"

    @property
    def distribution(self):
        self._dist["standin_skips"] = STANDIN_SKIPS[0]
        self._dist["engine_limit_skips"] = ENGINE_LIMIT_SKIPS[0]
        return self._dist

    @distribution.setter
    def distribution(self, v):
        self._dist = v

    def gen(self, rng, tier):
        # join chains on duplicated keys multiply rows; the Lean evaluator (and 48 SQL executions per oracle run) are
        # quadratic in them: thorough-tier tables are capped and pipelines returning more than max_result_rows rows
        # are dropped (counted in the distribution)
        if tier == "thorough":
            self.opts.setdefault("max_rows", 12)
        for c in super().gen(rng, tier):
            try:
                ops = self._build(c)
                out = pipes.run_pandas(ops, c["tables"])
                if "ok" in out and len(out["ok"]["rows"]) > self.max_result_rows:
                    self.distribution["dropped_large"] = self.distribution.get("dropped_large", 0) + 1
                    continue
            except Exception:
                pass
            yield c

    def corpus(self):
        out = []
        for c in _load_corpus("c04_semopt_oracle"):
            c = dict(c, _always=True)
            c.setdefault("dialect", "postgres")
            c.setdefault("merges", True)
            c.setdefault("use_with", True)
            c.setdefault("cte_elim", True)
            out.append(c)
        return out


# ------------------------------------------------------------------------------------------------
# D24: a user table named like a generated query name
# ------------------------------------------------------------------------------------------------

class Scope(OracleOnly):
    """rename one input table to the name of a CTE the WITH form of the pipeline emits; the nested form and the WITH
    form must agree (they do not: finding D24, guard NoTableNamedLikeCte of C04_with_form_scoped_sound)"""
    name = "c04_scope"
    n_quick, n_thorough = 25, 120
    gen_opts = dict(OracleOnly.gen_opts, shared=0.3, hostile=False)

    def corpus(self):
        return [dict(c, _always=True) for c in _load_corpus(self.name)]

    def gen(self, rng, tier):
        for c in super().gen(rng, tier):
            names = self._cte_names(c)
            if not names or not c["tables"]:
                continue
            yield dict(c, rename={rng.choice(sorted(c["tables"])): rng.choice(names)})

    def _cte_names(self, case):
        ops, err = pipes.build_or_error(case)
        if ops is None:
            return []
        try:
            with warnings.catch_warnings():
                warnings.simplefilter("ignore")
                ops.columns_used()
                near = ops.to_near_sql_implementation_(db_model=L.SQLite.SQLiteModel(), using=None, temp_id_source=[0])
                return [suites_sql._unq(k) for k, _ in near.to_with_form(cte_cache=None).previous_steps]
        except Exception:
            return []

    def _run(self, case):
        c = oracles.rename_case(case, {}, case.get("rename") or {})
        ops, err = pipes.build_or_error(c)
        if ops is None:
            return None
        res = {}
        for uw in (False, True):
            res[uw] = pipes.run_sqlite(ops, c["tables"], sql_options={"use_with": uw, "use_cte_elim": False,
                                                                      "annotate": False})
        return res

    def real(self, case):
        r = self._run(case)
        return {"built": r is not None, "nested": r and r[False], "with": r and r[True]}

    def oracle(self, case, real_out):
        a, b = real_out.get("nested"), real_out.get("with")
        if not a or not b or "skip" in a or "skip" in b:
            return None
        if ("err" in a) != ("err" in b):
            return f"scope-nested-vs-with: nested {a.get('err', 'ok')} / WITH {b.get('err', 'ok')} {b.get('msg', '')[-60:]}"
        if "ok" in a:
            d = pipes.same_table(a["ok"], b["ok"], ordered=False)
            if d is not None:
                return f"scope-nested-vs-with: {d}"
        return None

    def finding(self, case, real_out, why):
        rn = case.get("rename") or {}
        return D24 if any(_GEN_NAME.match(v) for v in rn.values()) else None

    def nontrivial(self, case, real_out):
        return bool(real_out.get("built")) and bool(case.get("rename"))

    def shrink(self, case):
        for c in super().shrink(case):
            yield dict(c, rename=case.get("rename"))


class With(suites_sql.K5With):
    n_quick, n_thorough = 150, 1000


class K5TwinsC04(suites_sql.K5Twins):
    """the same calls on twin inputs under WITH + CTE elimination (what a cache key must tell apart): correspondence of the
    real result with the model's `semToSql` (no oracle of its own)"""
    n_quick, n_thorough = 40, 300


SUITES = [
    With(),
    with_oracle(SemOpt, oracle_c04, name="c04_semopt_oracle", every=6, shared=0.8),
    Stub(),
    Scope(),
    # every third twin case is also executed under all option combinations (oracle_c04): a cache key that merges two different
    # sub-queries then comes with a failing input, not only with a correspondence break
    with_oracle(K5TwinsC04, oracle_c04, name="k5_twins", every=3),
]
