"""C23 — connected_components labels each edge by its component's least vertex."""
import glob
import itertools
import json
import os

from ..core import Suite, VERIF

PROPERTY = "C23"
LEAN_MODULES = ["DAVerif.Props.C23"]
THEOREMS = [
    "DAVerif.CC.C23_invariant",
    "DAVerif.CC.C23_label_of_keys",
    "DAVerif.CC.C23_total",
    "DAVerif.CC.C23_label",
    "DAVerif.CC.C23_same_label_iff",
    "DAVerif.CC.C23_keys_order_irrelevant",
]
ASSUMPTIONS = [
    "vertex values are hashable with a consistent ==, and < is a linear order on them (ints, strs; no NaN, no mixing "
    "of ints with strs) - the property's 'hashable, ordered vertex values'",
    "Python dict/set semantics: d[k] raises KeyError exactly on absent keys, set.update/len are set union/cardinality, "
    "attribute writes are seen through every reference to the object (modelled as a heap of records + handles)",
    "min(a, b) is `b if b < a else a`; str is ordered by code point (Lean String order), int by value (Lean Int)",
]
NOT_PROVEN = [
    "the pandas-facing route (extend with connected_components(f, g) / f.co_equalizer(g) through pandas_base.impl_map) "
    "is not modelled: it is only checked by running it (suite cc_pandas) against the model of the function it calls",
]
LEVEL_TEXT = ("Six theorems are kernel-checked for every vertex type with decidable equality and a linear order, all "
              "lists f, g of any (also unequal) lengths and every enumeration order of the key set: the loop invariant "
              "over every prefix of zip(f, g) (each key references a live Component whose items are exactly the key's "
              "connected component, whose id is its least vertex, shared by all members), no KeyError, len(f) labels, "
              "label i is connected to both endpoints of edge i and <= every vertex of their component, labels i and "
              "j are equal iff the edges are connected, and the result does not depend on set iteration order. The "
              "model is the algorithm as written (aliasing explicit) and is tied to connected_components.py by output "
              "comparison on random and exhaustively enumerated edge lists; an independent union-find/BFS oracle "
              "searches for failing inputs.")
LEVEL_NOTE = ("Trusted: Lean kernel; axioms propext/Classical.choice/Quot.sound; the hand-written model of "
              "connected_components.py (validated by the correspondence suites on every run); Python dict/set/min "
              "semantics as listed in the assumptions.")
RULE = ("random edge lists (1..9 vertices from an int pool or a str pool, 0..~15 edges, thorough up to 14 vertices / ~40 "
        "edges; 1-3 interleaved blobs: sparse random, shuffled paths, stars, late merges, self loops and duplicate edges; ~15% unequal lengths; ~25% with an "
        "explicit permuted key enumeration for the model); thorough adds every edge list of <= 5 edges over 4 vertices; "
        "non-trivial = at least 3 edges and at least one label that differs from its own f[i] or two different labels")

INT_POOL = [0, 1, 2, 3, 4, 5, 6, 7, -1, -3, 10, 12, 100, 10 ** 20]
STR_POOL = ["", "a", "b", "c", "B", "10", "9", "aa", "ab", "z", "é", "中", "a b", "'"]


def _cc():
    from data_algebra.connected_components import connected_components
    return connected_components


def _canon_labels(r):
    out = []
    for x in r:
        if isinstance(x, bool):
            out.append({"bool": x})
        elif isinstance(x, int):
            out.append(int(x))
        elif isinstance(x, str):
            out.append(str(x))
        elif hasattr(x, "item"):  # numpy scalar
            out.append(x.item())
        else:
            out.append({"repr": repr(x)})
    return out


# ---------------------------------------------------------------------------------------------------
# independent references: union-find for the expected labels, BFS for "same component"
# ---------------------------------------------------------------------------------------------------

def uf_labels(f, g):
    parent = {}

    def find(x):
        while parent[x] != x:
            parent[x] = parent[parent[x]]
            x = parent[x]
        return x

    for v in list(f) + list(g):
        parent.setdefault(v, v)
    for a, b in zip(f, g):
        ra, rb = find(a), find(b)
        if ra != rb:
            parent[ra] = rb
    least = {}
    for v in parent:
        r = find(v)
        if r not in least or v < least[r]:
            least[r] = v
    return [least[find(v)] for v in f]


def bfs_class(f, g, start):
    adj = {}
    for a, b in zip(f, g):
        adj.setdefault(a, []).append(b)
        adj.setdefault(b, []).append(a)
    seen = {start}
    todo = [start]
    while todo:
        x = todo.pop()
        for y in adj.get(x, ()):
            if y not in seen:
                seen.add(y)
                todo.append(y)
    return seen


def property_oracle(case, real_out):
    f, g = case["f"], case["g"]
    if len(f) != len(g):
        return None  # outside the docstring's contract ("of length n"); the property makes no demand there
    if not isinstance(real_out, dict) or ("ok" not in real_out and "err" not in real_out):
        return "harness: " + str(real_out)[:200]
    if "err" in real_out:
        return f"raises: {real_out['err']} on a well-formed edge list"
    labels = real_out["ok"]
    if len(labels) != len(f):
        return f"length: {len(labels)} labels for {len(f)} edges"
    exp = uf_labels(f, g)
    for i, (l, e) in enumerate(zip(labels, exp)):
        if l != e:
            return (f"label: edge {i} = ({f[i]!r}, {g[i]!r}) is labelled {l!r}, the least vertex of its component "
                    f"is {e!r}")
    # second sentence of the property, decided independently of the labels' values: BFS reachability
    classes = [bfs_class(f, g, f[i]) for i in range(len(f))] if len(f) <= 12 else None
    if classes is not None:
        for i in range(len(f)):
            for j in range(i + 1, len(f)):
                same = f[j] in classes[i]
                if (labels[i] == labels[j]) != same:
                    return (f"same-label: edges {i} and {j} are {'in one component' if same else 'in different components'}"
                            f" but are labelled {labels[i]!r} and {labels[j]!r}")
    return None


def _shrink(case):
    f, g = case["f"], case["g"]
    extra = {k: v for k, v in case.items() if k not in ("f", "g", "keys")}
    if "keys" in case:
        yield dict(extra, f=f, g=g)
    n = max(len(f), len(g))
    for i in range(n):
        yield dict(extra, f=f[:i] + f[i + 1:], g=g[:i] + g[i + 1:])
    # rename the largest vertex to a smaller unused-or-used pool value of the same type (keeps order relations simple)
    vs = sorted(set(f) | set(g))
    if vs and all(isinstance(v, int) for v in vs):
        small = [v for v in range(0, len(vs))]
        if vs != small and min(vs) >= 0:
            m = dict(zip(vs, small))
            yield dict(extra, f=[m[v] for v in f], g=[m[v] for v in g])


def _nontrivial(case, real_out):
    if not isinstance(real_out, dict) or "ok" not in real_out:
        return False
    f = case["f"]
    labels = real_out["ok"]
    if min(len(f), len(case["g"])) < 3 or len(labels) != len(f):
        return False
    return any(l != v for l, v in zip(labels, f)) or len(set(map(repr, labels))) >= 2


# ---------------------------------------------------------------------------------------------------
# generators
# ---------------------------------------------------------------------------------------------------

def _shape(rng, vs, ne):
    """one connected-ish blob of edges over the vertices vs"""
    shape = rng.random()
    f, g = [], []
    if shape < 0.4:  # sparse uniform random edges: several components; self loops / duplicates by collision
        for _ in range(rng.randint(0, min(ne, len(vs) + 2))):
            a, b = rng.choice(vs), rng.choice(vs)
            if a == b and rng.random() < 0.7:
                b = rng.choice(vs)
            f.append(a); g.append(b)
    elif shape < 0.6:  # a path visited in random edge order: many equal-size merges, late merges of big parts
        order = vs[:]
        rng.shuffle(order)
        edges = list(zip(order, order[1:]))
        rng.shuffle(edges)
        for a, b in edges[:ne] if ne else []:
            if rng.random() < 0.5:
                a, b = b, a
            f.append(a); g.append(b)
    elif shape < 0.72:  # star
        c = rng.choice(vs)
        for _ in range(min(ne, len(vs) + 1)):
            a, b = c, rng.choice(vs)
            if rng.random() < 0.5:
                a, b = b, a
            f.append(a); g.append(b)
    elif shape < 0.92:  # two parts grown separately, then joined: the least vertex often sits in the smaller (donor) part
        k = rng.randint(1, max(1, len(vs) - 1))
        p1, p2 = vs[:k], vs[k:] or vs[:1]
        for part in (p1, p2):
            for _ in range(rng.randint(0, max(1, ne // 2))):
                f.append(rng.choice(part)); g.append(rng.choice(part))
        a, b = rng.choice(p1), rng.choice(p2)
        if rng.random() < 0.5:
            a, b = b, a
        f.append(a); g.append(b)
        for _ in range(rng.randint(0, 3)):
            f.append(rng.choice(vs)); g.append(rng.choice(vs))
    else:  # repeated edges / self loops only
        for _ in range(min(ne, 6)):
            a = rng.choice(vs)
            b = a if rng.random() < 0.5 else rng.choice(vs[:2])
            f.append(a); g.append(b)
    return f, g


def rand_graph(rng, tier):
    pool = list(INT_POOL if rng.random() < 0.65 else STR_POOL)
    big = tier == "thorough" and rng.random() < 0.2
    nv = rng.randint(1, 14 if big else 9)
    vs = rng.sample(pool, min(nv, len(pool)))
    ne = rng.randint(0, 40 if big else 14)
    # 1..3 blobs over disjoint vertex subsets, their edges interleaved (so that several components of different sizes
    # are alive at the same time)
    nb = min(len(vs), rng.choice([1, 1, 2, 2, 3]))
    cuts = sorted(rng.sample(range(1, len(vs)), nb - 1)) if nb > 1 else []
    parts = [vs[i:j] for i, j in zip([0] + cuts, cuts + [len(vs)])]
    blobs = [_shape(rng, p, max(1, ne // nb) if len(p) > 1 else rng.randint(0, 1)) for p in parts]
    f, g = [], []
    idx = [0] * len(blobs)
    live = [i for i, bl in enumerate(blobs) if bl[0]]
    while live:
        i = rng.choice(live)
        f.append(blobs[i][0][idx[i]]); g.append(blobs[i][1][idx[i]])
        idx[i] += 1
        if idx[i] >= len(blobs[i][0]):
            live.remove(i)
    if len(parts) > 1 and rng.random() < 0.3:  # sometimes bridge two blobs at the very end
        f.append(rng.choice(parts[0])); g.append(rng.choice(parts[-1]))
    return f, g, vs


class Direct(Suite):
    """connected_components(f, g) called directly"""
    name = "cc"

    def __init__(self):
        self.distribution = {}

    def _count(self, k, n=1):
        self.distribution[k] = self.distribution.get(k, 0) + n

    def corpus(self):
        out = []
        for p in sorted(glob.glob(os.path.join(VERIF, "corpus", "C23", "*.json"))):
            o = json.load(open(p))
            if o.get("suite") == self.name:
                out.append(o["case"])
        return out

    def gen(self, rng, tier):
        n = 2500 if tier == "quick" else 40000
        for _ in range(n):
            f, g, vs = rand_graph(rng, tier)
            case = {"f": f, "g": g}
            r = rng.random()
            if r < 0.15:  # malformed stream: unequal lengths (zip truncates, the result is read off all of f)
                if rng.random() < 0.5 and g:
                    case["g"] = g[:rng.randint(0, len(g) - 1)]
                elif f:
                    case["f"] = f[:rng.randint(0, len(f) - 1)]
                else:
                    case["g"] = g + [rng.choice(vs)]
                self._count("unequal_lengths")
            if rng.random() < 0.25:  # an explicit enumeration of the key set for the model (hash-order independence)
                ks = list(dict.fromkeys(case["f"] + case["g"]))
                rng.shuffle(ks)
                case["keys"] = ks
                self._count("explicit_key_order")
            f, g = case["f"], case["g"]
            self._count("cases")
            self._count("str_vertices" if any(isinstance(v, str) for v in f + g) else "int_vertices")
            self._count("edges_total", min(len(f), len(g)))
            self._count("self_loops", sum(1 for a, b in zip(f, g) if a == b))
            self._count("repeated_edges", min(len(f), len(g)) - len({frozenset((a, b)) for a, b in zip(f, g)}))
            if len(f) == len(g) and f:
                lab = uf_labels(f, g)
                self._count("components_%d" % min(len(set(map(repr, lab))), 5))
                self._count("label_differs_from_both_endpoints", sum(1 for a, b, l in zip(f, g, lab) if l != a and l != b))
            if not f and not g:
                self._count("empty")
            yield case

    def real(self, case):
        cc = _cc()
        try:
            r = cc(list(case["f"]), list(case["g"]))
        except Exception as e:  # error -> class name only
            return {"err": type(e).__name__}
        if not isinstance(r, list):
            return {"err": "not-a-list:" + type(r).__name__}
        return {"ok": _canon_labels(r)}

    def oracle(self, case, real_out):
        return property_oracle(case, real_out)

    def nontrivial(self, case, real_out):
        return _nontrivial(case, real_out)

    def shrink(self, case):
        return _shrink(case)


class Exhaustive(Direct):
    """small-scope exhaustive enumeration (thorough tier): every edge list of <= 5 edges over the vertices 0..3"""
    name = "cc_exhaustive"
    driver_suite = "cc"

    def corpus(self):
        return []

    def gen(self, rng, tier):
        if tier != "thorough":
            return
        pairs = [(a, b) for a in range(4) for b in range(4)]
        n = 0
        for ln in range(0, 6):
            for es in itertools.product(pairs, repeat=ln):
                n += 1
                yield {"f": [e[0] for e in es], "g": [e[1] for e in es]}
        self.distribution = {"edge_lists_enumerated": n, "vertices": 4, "max_edges": 5}


class ViaPandas(Suite):
    """the pandas-facing use: impl_map 'connected_components' / 'co_equalizer' reached through extend().transform()"""
    name = "cc_pandas"
    driver_suite = "cc"

    def __init__(self):
        self.distribution = {}

    def gen(self, rng, tier):
        n = 120 if tier == "quick" else 1500
        for _ in range(n):
            while True:
                f, g, _ = rand_graph(rng, "quick")
                if f and all(not isinstance(v, int) or abs(v) < 2 ** 40 for v in f + g):
                    break
            via = rng.choice(["connected_components", "co_equalizer"])
            self.distribution[via] = self.distribution.get(via, 0) + 1
            yield {"f": f, "g": g, "via": via}

    def real(self, case):
        import pandas
        from data_algebra.data_ops import describe_table
        d = pandas.DataFrame({"f": list(case["f"]), "g": list(case["g"])})
        expr = "connected_components(f, g)" if case["via"] == "connected_components" else "f.co_equalizer(g)"
        try:
            res = describe_table(d, table_name="d").extend({"c": expr}).transform(d)
        except Exception as e:
            return {"err": type(e).__name__}
        if list(res.columns) != ["f", "g", "c"] or res.shape[0] != len(case["f"]):
            return {"err": "bad-frame-shape"}
        return {"ok": _canon_labels(res["c"].tolist())}

    def oracle(self, case, real_out):
        return property_oracle(case, real_out)

    def nontrivial(self, case, real_out):
        return _nontrivial(case, real_out)

    def shrink(self, case):
        for c in _shrink(case):
            if c["f"] and len(c["f"]) == len(c["g"]):
                yield c


SUITES = [Direct(), ViaPandas(), Exhaustive()]
