"""
Evaluate a seeded change produced by an independent sub-agent (never applied to /repo itself):
    /venv/bin/python harness/seedeval.py <property> <dir with patch.diff demo.py notes.md> <seed id> [--tier quick]
1. scratch worktree of /repo HEAD, 2. demo passes without / fails with the patch, 3. the pinned baseline still passes with the
patch, 4. `VERIF_REPO=<worktree> bin/check <property>` must exit 1 with a VIOLATION line, 5. replay reproduces,
6. the unchanged worktree gives exit 0.  Result kept as /verif/seeded/<seed id>/{patch.diff,demo.py,notes.md,meta.json}.
"""
import json
import os
import re
import shutil
import subprocess
import sys
import time

VERIF = os.path.dirname(os.path.dirname(os.path.abspath(__file__)))


def sh(cmd, env=None, cwd=None, timeout=3600):
    r = subprocess.run(cmd, shell=True, capture_output=True, text=True, env=env, cwd=cwd, timeout=timeout)
    return r.returncode, (r.stdout + r.stderr)


def main():
    prop, src, sid = sys.argv[1], sys.argv[2], sys.argv[3]
    tier = sys.argv[sys.argv.index("--tier") + 1] if "--tier" in sys.argv else "quick"
    skip_baseline = "--skip-baseline" in sys.argv
    wt = f"/tmp/seedwt_{sid}"
    sh(f"git -C /repo worktree remove --force {wt}")
    rc, out = sh(f"git -C /repo worktree add --detach {wt} HEAD")
    meta = {"seed": sid, "property": prop, "source_dir": src, "repo_head": sh("git -C /repo rev-parse --short HEAD")[1].strip(),
            "tier": tier}
    try:
        env = dict(os.environ, PYTHONPATH=wt)
        demo = os.path.join(src, "demo.py")
        rc0, o0 = sh(f"/venv/bin/python -W ignore {demo}", env=env, cwd=src)
        meta["demo_unpatched_rc"] = rc0
        rca, oa = sh(f"git -C {wt} apply {os.path.join(src, 'patch.diff')}")
        meta["patch_applies"] = rca == 0
        if rca != 0:
            meta["apply_error"] = oa[-400:]
            return meta
        rc1, o1 = sh(f"/venv/bin/python -W ignore {demo}", env=env, cwd=src)
        meta["demo_patched_rc"] = rc1
        meta["demo_patched_out"] = o1[-400:]
        if not skip_baseline:
            rcb, ob = sh(f"/venv/bin/python {VERIF}/harness/baseline.py {wt}", cwd=VERIF)
            meta["baseline_with_patch"] = ob.strip().split("\n")[0]
            meta["baseline_ok"] = rcb == 0
        t0 = time.time()
        envc = dict(os.environ, VERIF_REPO=wt, VERIF_EVIDENCE_DIR=os.path.join(VERIF, "seeded", sid, "evidence"))
        rcc, oc = sh(f"bin/check {prop} --tier {tier}", env=envc, cwd=VERIF)
        meta["check_rc_patched"] = rcc
        meta["check_wall_s"] = round(time.time() - t0, 1)
        viol = re.findall(r"^VIOLATION .*$", oc, re.M)
        meta["violation_lines"] = viol[:4]
        meta["check_tail"] = oc[-500:]
        meta["caught"] = rcc == 1 and bool(viol)
        if viol:
            m = re.search(r"replay=(\S+)", viol[0])
            if m:
                rp = os.path.join(VERIF, m.group(1))
                if os.path.exists(rp):
                    rj = json.load(open(rp))
                    meta["replay_summary"] = {k: (str(v)[:300]) for k, v in rj.items() if k in
                                              ("suite", "oracle", "no_longer_checks", "model_agrees_with_code")}
                    rcr, orr = sh(f"bin/check {prop} --replay {m.group(1)}", env=envc, cwd=VERIF)
                    meta["replay_rc_patched"] = rcr
                    rcr0, _ = sh(f"bin/check {prop} --replay {m.group(1)}", cwd=VERIF)
                    meta["replay_rc_unpatched"] = rcr0
                    keep = os.path.join(VERIF, "seeded", sid)
                    os.makedirs(keep, exist_ok=True)
                    shutil.copy(rp, os.path.join(keep, "replay.json"))
        no_input = any("no-failing-input-found" in v for v in viol)
        meta["caught_by"] = ("oracle (failing input found)" if viol and not all("no-failing-input-found" in v for v in viol)
                             else ("correspondence/proof only (no-failing-input-found)" if no_input else "nothing"))
    finally:
        sh(f"git -C /repo worktree remove --force {wt}")
        # the check on the unchanged tree re-establishes the evidence file
        keep = os.path.join(VERIF, "seeded", sid)
        os.makedirs(keep, exist_ok=True)
        for f in ("patch.diff", "demo.py", "notes.md"):
            if os.path.exists(os.path.join(src, f)):
                shutil.copy(os.path.join(src, f), os.path.join(keep, f))
        meta["needs_to_manifest"] = "see notes.md"
        meta["what_i_ran"] = [f"demo.py on unpatched/patched worktree", "harness/baseline.py <patched worktree>",
                              f"VERIF_REPO=<patched worktree> bin/check {prop} --tier {tier}", "bin/check --replay on both trees"]
        json.dump(meta, open(os.path.join(keep, "meta.json"), "w"), indent=1)
        print(json.dumps({k: meta.get(k) for k in ("seed", "patch_applies", "demo_unpatched_rc", "demo_patched_rc", "baseline_ok",
                                                   "check_rc_patched", "caught", "caught_by", "replay_rc_patched",
                                                   "replay_rc_unpatched", "violation_lines")}, indent=0))
    return meta


if __name__ == "__main__":
    main()
