"""entry point: python -m harness.check Cxx [--tier quick|thorough] [--replay file]"""
import argparse
import importlib
import os
import sys
import traceback

from . import core


def main():
    ap = argparse.ArgumentParser()
    ap.add_argument("prop")
    ap.add_argument("--tier", default=os.environ.get("VERIF_TIER") or "quick", choices=["quick", "thorough"])
    ap.add_argument("--replay")
    a = ap.parse_args()
    try:
        seed = int(os.environ.get("VERIF_SEED", "0") or 0)
    except ValueError:
        seed = 0
    try:
        mod = importlib.import_module("harness.props." + a.prop.lower())
    except ModuleNotFoundError as e:
        print(f"no check for {a.prop}: {e}", file=sys.stderr)
        return 2
    os.chdir(core.VERIF)
    # checks of /repo may run side by side (shared lock); a run against ANOTHER tree (VERIF_REPO: seeded-change
    # evaluation) regenerates lean/DAVerif/Generated from that tree and so must have the Lean project to itself
    import fcntl
    os.makedirs(core.WORK, exist_ok=True)
    _run_lock = open(os.path.join(core.WORK, "run.lock"), "w")
    other_tree = os.path.realpath(os.environ.get("VERIF_REPO") or "/repo") != os.path.realpath("/repo")
    # a second lock gives the exclusive runner priority (flock itself lets a stream of shared holders starve it)
    _want_lock = open(os.path.join(core.WORK, "run.want"), "w")
    if other_tree:
        fcntl.flock(_want_lock, fcntl.LOCK_EX)
        fcntl.flock(_run_lock, fcntl.LOCK_EX)
    else:
        fcntl.flock(_want_lock, fcntl.LOCK_SH)
        fcntl.flock(_run_lock, fcntl.LOCK_SH)
        fcntl.flock(_want_lock, fcntl.LOCK_UN)
    try:
        if a.replay:
            return core.replay(mod, a.replay)
        chk = core.Check(mod, a.tier, seed)
        rc = chk.main()
        cov = chk.ev["coverage"]
        print(f"{a.prop} tier={a.tier} seed={seed}: obligations {cov.get('discharged')}/{cov.get('obligations')} "
              f"cases {cov.get('evaluations')} nontrivial-distinct {cov.get('distinct_nontrivial')} "
              f"corr-breaks {cov.get('correspondence_breaks')} violations {len(chk.violations)} "
              f"wall {chk.ev['wall_s']}s")
        return rc
    except core.Infra as e:
        print(f"INFRASTRUCTURE: {e}", file=sys.stderr)
        return 2
    except Exception:
        traceback.print_exc()
        return 2


if __name__ == "__main__":
    sys.exit(main())
