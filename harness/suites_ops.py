"""
Correspondence suites of the operator layer (DESIGN §4.2): K2 builders, K3 columns_used / == / >>, K4 Pandas
executor semantics.  Each is a core.Suite without an oracle; property modules subclass them and add `oracle`.
A case is always a pipes.py Case (+ a few suite-specific keys), so it replays from its JSON alone.
"""
import random
import warnings

from . import modeltree as mt
from . import pipes
from .core import Suite


def _flatten_main(pipe):
    """(table name, main steps) of a Pipe whose main chain starts at a table (src-nesting flattened)"""
    p = pipe
    chain = []
    while "src" in p:
        chain.append(p)
        p = p["src"]
    if "table" not in p:
        return None, None
    steps = []
    for q in [p] + list(reversed(chain)):
        qs = list(q.get("steps", []))
        if "def" in q:
            if qs:
                qs[-1] = dict(qs[-1], _def_after=q["def"])
            else:
                steps.append({"call": "_def", "_def_after": q["def"]})
        steps += qs
    return p["table"], steps


class K2Build(Suite):
    """every builder call of the main chain, one by one, on the real library and on the model"""
    name = "k2_build"
    n_quick, n_thorough = 300, 4000
    gen_opts = dict(fault_rate=0.35, convert_records=0.0)

    def __init__(self, **opts):
        self.opts = dict(self.gen_opts, **opts)
        self.distribution = {}

    def gen(self, rng, tier):
        n = self.n_quick if tier == "quick" else self.n_thorough
        for _ in range(n):
            case = pipes.gen_case(random.Random(rng.getrandbits(64)), tier, **self.opts)
            for c in case["meta"].get("calls", []):
                k = c if c.startswith("FAULT") else c
                self.distribution[k] = self.distribution.get(k, 0) + 1
            yield {"tables": {k: {"cols": v["cols"], "kinds": v["kinds"], "rows": []} for k, v in case["tables"].items()},
                   "pipe": case["pipe"], "meta": {"fault": case["meta"].get("fault")}}

    # the model's input is computed from the case by the real parser (expressions) and the real builders (b sides)
    def _model_case(self, case):
        tname, steps = _flatten_main(case["pipe"])
        if tname is None:
            return None
        B = pipes.Builder(case["tables"])
        with warnings.catch_warnings():
            warnings.simplefilter("ignore")
            cur = B.table(tname)
            start = mt.to_model_tree(cur)
            msteps = []
            real = None
            i = -1
            for s in steps:
                if s["call"] == "_def":
                    B.defs[s["_def_after"]] = cur
                    continue
                i += 1
                try:
                    msteps.append(mt.model_step(s, list(cur.column_names), B.pipe))
                except Exception as e:  # the b side or the expression text itself is rejected: not a builder question
                    return {"skip": "step %d not expressible: %s" % (i, type(e).__name__)}
                if real is None:
                    try:
                        cur = pipes.apply_step(cur, s, B.pipe)
                    except Exception as e:
                        real = {"err": type(e).__name__, "at": i}
                    if real is None and "_def_after" in s:
                        B.defs[s["_def_after"]] = cur
            if real is None:
                real = {"ok": mt.to_model_tree(cur)}
        return {"start": start, "steps": msteps, "real": real}

    def real(self, case):
        m = self._model_case(case)
        if m is None or "skip" in m:
            return {"skip": True}
        return m["real"]

    def driver_case(self, case):
        m = self._model_case(case)
        if m is None or "skip" in m:
            return {"start": {"node": "table", "name": "skip", "cols": ["x"]}, "steps": []}
        return {"start": m["start"], "steps": m["steps"]}

    def model_canon(self, out, case=None):
        return out

    def real_canon(self, out, case=None):
        if isinstance(out, dict) and out.get("skip"):
            return {"ok": {"node": "table", "name": "skip", "cols": ["x"], "column_names": ["x"]}}
        return out

    def nontrivial(self, case, real_out):
        return not (isinstance(real_out, dict) and real_out.get("skip"))

    def shrink(self, case):
        for c in pipes.shrink_case(dict(case, tables=case["tables"])):
            yield c


def _final_kind(pipe):
    _, steps = _flatten_main(pipe)
    steps = [s for s in (steps or []) if s["call"] != "_def"]
    return steps[-1]["call"] if steps else None


class K4Sem(Suite):
    """Pandas executor on random tables vs the model's `sem SemCfg.pandas` with the concrete interpretation"""
    name = "k4_sem"
    n_quick, n_thorough = 300, 4000
    gen_opts = dict(fault_rate=0.0, convert_records=0.0, hostile=False, null_cmp=0.0, mod_ops=0.0, round_ops=0.0,
                    limit_null_order=0.0, null_order_keys=0.0, str_order_cmp=0.0)

    def __init__(self, **opts):
        self.opts = dict(self.gen_opts, **opts)
        self.distribution = {}
        self.unsupported = {}

    def gen(self, rng, tier):
        n = self.n_quick if tier == "quick" else self.n_thorough
        for _ in range(n):
            case = pipes.gen_case(random.Random(rng.getrandbits(64)), tier, **self.opts)
            if pipes.est_rows(case) > pipes.MAX_EST_ROWS:
                k = "skipped: estimated intermediate rows > %d" % pipes.MAX_EST_ROWS
                self.distribution[k] = self.distribution.get(k, 0) + 1
                continue
            for c in case["meta"].get("calls", []):
                self.distribution[c] = self.distribution.get(c, 0) + 1
            yield {"tables": case["tables"], "pipe": case["pipe"]}

    def _build(self, case):
        with warnings.catch_warnings():
            warnings.simplefilter("ignore")
            return pipes.build(case)

    def real(self, case):
        try:
            ops = self._build(case)
        except Exception as e:
            return {"build_err": type(e).__name__}
        out = pipes.run_pandas(ops, case["tables"])
        return out

    def driver_case(self, case):
        try:
            ops = self._build(case)
        except Exception:
            return {"ops": {"node": "table", "name": "none", "cols": ["x"]}, "tables": {}}
        return {"ops": mt.to_model_tree(ops), "tables": {k: mt.table_for_model(v) for k, v in case["tables"].items()}}

    def _canon(self, out, case):
        if not isinstance(out, dict):
            return out
        if "ok" in out:
            fk = _final_kind(case["pipe"])
            t = {"cols": list(out["ok"]["cols"]), "rows": [[mt._fix_lit(v) for v in r] for r in out["ok"]["rows"]]}
            res = {"ok": t, "col_order": fk == "select_columns"}
            if fk == "order_rows":
                # the claim is the order of the key columns; rows that tie on every key may come in any order
                _, steps = _flatten_main(case["pipe"])
                keys = [s for s in steps if s["call"] != "_def"][-1]["cols"]
                idx = [t["cols"].index(k) for k in keys if k in t["cols"]]
                res["key_sequence"] = [[r[i] for i in idx] for r in t["rows"]]
            return res
        return out

    def real_canon(self, out, case=None):
        return self._canon(out, case)

    def model_canon(self, out, case=None):
        if isinstance(out, dict) and "unsupported" in out:
            k = out["unsupported"]
            self.unsupported[k] = self.unsupported.get(k, 0) + 1
        return self._canon(out, case)

    def agree(self, real_c, model_c):
        if isinstance(model_c, dict) and "unsupported" in model_c:
            return True
        if isinstance(real_c, dict) and "build_err" in real_c:
            return True
        if isinstance(real_c, dict) and "err" in real_c:
            # pandas raised at run time (dtype inference on all-null / empty columns, object-vs-float comparisons):
            # the model has no dtypes; counted, not compared (the properties speak about returned tables)
            self.real_errors = getattr(self, "real_errors", 0) + 1
            return True
        if isinstance(real_c, dict) and isinstance(model_c, dict) and "ok" in real_c and "ok" in model_c:
            big = False
            for t in (real_c["ok"], model_c["ok"]):
                for r in t["rows"]:
                    for v in r:
                        n = pipes.val_num(v) if isinstance(v, dict) else None
                        if n is not None and abs(n) > 1e15:
                            big = True
            if big:
                # beyond float64's exact integer range / int64: the model computes over unbounded rationals
                self.range_skips = getattr(self, "range_skips", 0) + 1
                return True
            why = pipes.same_table(real_c["ok"], model_c["ok"], ordered=False, col_order=real_c.get("col_order", False))
            if why:
                return False
            ka, kb = real_c.get("key_sequence"), model_c.get("key_sequence")
            if ka is not None or kb is not None:
                if ka is None or kb is None or len(ka) != len(kb):
                    return False
                return all(pipes._rows_close(x, y, 1e-8, [False] * len(x)) for x, y in zip(ka, kb))
            return True
        return super().agree(real_c, model_c)

    def nontrivial(self, case, real_out):
        return isinstance(real_out, dict) and "ok" in real_out and len(real_out["ok"]["rows"]) > 0

    def shrink(self, case):
        for c in pipes.shrink_case(case):
            yield {"tables": c["tables"], "pipe": c["pipe"]}
