"""
S0 translator (DESIGN §4.1): regenerate lean/DAVerif/Generated/*.lean from the working tree of data_algebra
(the one on PYTHONPATH).  Prints one JSON line with digests.  Each section writes one file; a file is only rewritten
when its content changes (so `lake build` stays a no-op).

Sections
  ExprTables.lean   (C13/C12)  builder-method table of expr_rep.Term (read from the source with `ast`),
                               op_remap / factor_remap of parse_by_lark, the op names Expression.__init__ accepts.
"""
import ast
import hashlib
import inspect
import json
import os
import sys

HERE = os.path.dirname(os.path.abspath(__file__))
GEN = os.path.join(os.path.dirname(HERE), "lean", "DAVerif", "Generated")


def lean_str(s):
    out = ['"']
    for ch in s:
        if ch == '"':
            out.append('\\"')
        elif ch == "\\":
            out.append("\\\\")
        elif ch == "\n":
            out.append("\\n")
        else:
            out.append(ch)
    out.append('"')
    return "".join(out)


def lean_bool(b):
    return "true" if b else "false"


def write_if_changed(path, txt):
    os.makedirs(os.path.dirname(path), exist_ok=True)
    old = None
    if os.path.exists(path):
        old = open(path, encoding="utf-8").read()
    if old != txt:
        with open(path, "w", encoding="utf-8") as f:
            f.write(txt)
    return hashlib.sha256(txt.encode()).hexdigest()[:16]


# ------------------------------------------------------------------------------------------------
# expression tables
# ------------------------------------------------------------------------------------------------

SPECIAL_BUILDERS = {"shift", "around", "mapv", "trimstr", "coalesce_0", "parse_datetime", "parse_date",
                    "format_datetime", "format_date", "__pos__"}
HELPERS = {"__init__", "__op_expr__", "__rop_expr__", "__uop_expr__", "__triop_expr__"}


def _kw(call, name, default):
    for k in call.keywords:
        if k.arg == name:
            if isinstance(k.value, ast.Constant):
                return k.value.value
            return None
    return default


def classify_builder(fn):
    """one FunctionDef of class Term -> Lean `MethodKind` text, or None when the body has no modelled shape"""
    body = list(fn.body)
    if body and isinstance(body[0], ast.Expr) and isinstance(body[0].value, ast.Constant) \
            and isinstance(body[0].value.value, str):
        body = body[1:]  # docstring
    params = [a.arg for a in fn.args.args]
    nparams = len(params) - 1
    has_defaults = bool(fn.args.defaults) or bool(fn.args.kwonlyargs) or fn.args.vararg or fn.args.kwarg
    if fn.name in SPECIAL_BUILDERS:
        return f".special {lean_str(fn.name)}"
    if len(body) != 1 or not isinstance(body[0], ast.Return) or not isinstance(body[0].value, ast.Call):
        return None
    call = body[0].value
    f = call.func
    if not (isinstance(f, ast.Attribute) and isinstance(f.value, ast.Name) and f.value.id == "self"):
        return None
    if not call.args or not isinstance(call.args[0], ast.Constant) or not isinstance(call.args[0].value, str):
        return None
    op = call.args[0].value
    pos = call.args[1:]
    kwnames = {k.arg for k in call.keywords}

    def is_param(node, name):
        return isinstance(node, ast.Name) and node.id == name

    if f.attr == "__uop_expr__" and nparams == 0 and not pos and kwnames <= {"inline"}:
        inline = _kw(call, "inline", False)
        if inline is None:
            return None
        return f".uop {lean_str(op)} {lean_bool(inline)}"
    if f.attr == "__op_expr__" and nparams == 1 and not has_defaults and kwnames <= {"inline", "method", "check_types",
                                                                                       "other"}:
        other_ok = (len(pos) == 1 and is_param(pos[0], params[1])) or (
            not pos and any(k.arg == "other" and is_param(k.value, params[1]) for k in call.keywords))
        if not other_ok:
            return None
        inline = _kw(call, "inline", True)
        method = _kw(call, "method", False)
        check = _kw(call, "check_types", True)
        if None in (inline, method, check):
            return None
        return f".bin {lean_str(op)} {lean_bool(inline)} {lean_bool(method)} {lean_bool(check)}"
    if f.attr == "__rop_expr__" and nparams >= 1 and len(pos) == 1 and is_param(pos[0], params[1]):
        return f".rbin {lean_str(op)}"
    if f.attr == "__triop_expr__" and nparams == 2 and not has_defaults and kwnames <= {"inline", "method", "x", "y"}:
        xs = [pos[0] if len(pos) > 0 else None, pos[1] if len(pos) > 1 else None]
        for k in call.keywords:
            if k.arg == "x":
                xs[0] = k.value
            if k.arg == "y":
                xs[1] = k.value
        if not (is_param(xs[0], params[1]) and is_param(xs[1], params[2])):
            return None
        inline = _kw(call, "inline", False)
        method = _kw(call, "method", False)
        if None in (inline, method):
            return None
        return f".tri {lean_str(op)} {lean_bool(inline)} {lean_bool(method)}"
    return None


def expr_tables():
    import data_algebra.expr_rep as er
    import data_algebra.parse_by_lark as pbl
    src = inspect.getsource(er)
    tree = ast.parse(src)
    cls = {n.name: n for n in tree.body if isinstance(n, ast.ClassDef)}
    rows = []
    unmodelled = []
    for fn in cls["Term"].body:
        if not isinstance(fn, ast.FunctionDef) or fn.name in HELPERS:
            continue
        k = classify_builder(fn)
        if k is None:
            unmodelled.append(fn.name)
            k = ".unmodelled"
        rows.append((fn.name, k))
    # attributes reachable through getattr on a Term that are not builders (inherited from PreTerm / object):
    # getattr succeeds, the call does something the model does not describe
    probe = er.ColumnReference("x")
    builder_names = {n for n, _ in rows}
    other_attrs = sorted(a for a in dir(probe) if a not in builder_names)
    list_attrs = sorted(dir(er.ListTerm([])))
    dict_attrs = sorted(dir(er.DictTerm({})))
    value_neg = "fold" if "__neg__" in er.Value.__dict__ else "inherit"
    # op names Expression.__init__ accepts: specials, user_fun_map, impl_map, callable attributes of Value(0)
    import data_algebra.data_model
    dm = data_algebra.data_model.default_data_model()
    cand = set(dm.impl_map.keys()) | set(dm.user_fun_map.keys()) | set(dir(er.Value(0))) | {
        "_count", "_row_number", "_size", "_connected_components", "_ngroup", "_uniform"}
    for n, _ in rows:
        cand.add(n)
    known = sorted(c for c in cand if isinstance(c, str) and er._can_find_method_by_name(c))
    lines = [
        "import DAVerif.Expr.Walk",
        "/-! GENERATED by harness/extract_tables.py from data_algebra/expr_rep.py and parse_by_lark.py — do not edit. -/",
        "namespace DAVerif.Generated",
        "open DAVerif.Expr",
        "",
        "/-- `Term`'s builder methods, in source order: name ↦ shape of the body -/",
        "def methodTable : List (String × MethodKind) := [",
        ",\n".join(f"  ({lean_str(n)}, {k})" for n, k in rows),
        "]",
        "",
        "/-- other attributes `getattr(term, name)` finds on a Term (not builders; calling them is outside the model) -/",
        "def otherTermAttrs : List String := [" + ", ".join(lean_str(a) for a in other_attrs) + "]",
        "",
        "/-- attributes `getattr` finds on a ListTerm / DictTerm (none is a builder) -/",
        "def listAttrs : List String := [" + ", ".join(lean_str(a) for a in list_attrs) + "]",
        "def dictAttrs : List String := [" + ", ".join(lean_str(a) for a in dict_attrs) + "]",
        "",
        "/-- `Value.__neg__` is overridden to fold the constant -/",
        f"def valueNegFolds : Bool := {lean_bool(value_neg == 'fold')}",
        "",
        "/-- `parse_by_lark.op_remap`, `factor_remap` -/",
        "def opRemap : List (String × String) := [" + ", ".join(
            f"({lean_str(k)}, {lean_str(v)})" for k, v in pbl.op_remap.items()) + "]",
        "def factorRemap : List (String × String) := [" + ", ".join(
            f"({lean_str(k)}, {lean_str(v)})" for k, v in pbl.factor_remap.items()) + "]",
        "",
        "/-- op names for which `_can_find_method_by_name` is True (over impl_map, user_fun_map, the specials and the",
        "attributes of `Value(0)`); every other name makes `Expression.__init__` raise KeyError -/",
        "def knownOps : List String := [",
        "  " + ", ".join(lean_str(a) for a in known),
        "]",
        "",
        "def env (cols : List String) : Env :=",
        "  { cols := cols, methods := methodTable, otherTermAttrs := otherTermAttrs, listAttrs := listAttrs,",
        "    dictAttrs := dictAttrs, valueNegFolds := valueNegFolds, opRemap := opRemap, factorRemap := factorRemap,",
        "    knownOps := knownOps }",
        "",
        "end DAVerif.Generated",
        "",
    ]
    txt = "\n".join(lines)
    dig = write_if_changed(os.path.join(GEN, "ExprTables.lean"), txt)
    return {"ExprTables": dig, "builders": len(rows), "unmodelled_builders": unmodelled, "known_ops": len(known)}


def main():
    out = {}
    out.update(expr_tables())
    print(json.dumps(out))


if __name__ == "__main__":
    main()
