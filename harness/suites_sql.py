"""
Correspondence suites of the SQL layer (DESIGN §4.2 K5):
  K5Near  the NearSQL skeleton built by the real `to_near_sql_implementation_` vs the model's `toNearSql`
  K5Sem   the rows the generated SQL returns on SQLite vs the model's `semSql (toNearSql p)`
Cases are pipes.py Cases (+ "dialect", "merges").
"""
import random
import warnings

from . import modeltree as mt
from . import pipes
from .core import Suite
from .suites_ops import K4Sem


def _model(dialect, merges=True):
    L = pipes.L
    if dialect == "postgres":
        import data_algebra.PostgreSQL
        m = data_algebra.PostgreSQL.PostgreSQLModel()
    else:
        import data_algebra.SQLite
        m = data_algebra.SQLite.SQLiteModel()
    if not merges:
        m.allow_extend_merges = False
    return m


def _unq(s, q='"'):
    if isinstance(s, str) and len(s) >= 2 and s[0] == q and s[-1] == q:
        return s[1:-1].replace(q + q, q)
    return s


def near_skel(n):
    """observable skeleton of a real NearSQL tree (same shape as nearSkel in lean/DAVerif/Drv/SqlDrv.lean)"""
    cls = type(n).__name__
    if cls == "NearSQLTable":
        return {"cls": "table", "name": _unq(n.table_name), "terms": list((n.terms or {}).keys())}
    if cls == "NearSQLCommonTableExpression":
        return {"cls": "cte", "name": n.query_name}
    if cls == "NearSQLUnaryStep":
        terms = None
        if n.terms is not None and not isinstance(n.terms, list):
            terms = [[k, (v is None) or (v == k)] for k, v in n.terms.items()]
        sfx = ""
        if n.suffix:
            w = n.suffix[0].strip()
            sfx = "LIMIT" if w.startswith("LIMIT") else w
        cols = n.sub_sql.columns
        return {"cls": "unary", "name": n.query_name, "terms": terms, "sub": near_skel(n.sub_sql.near_sql),
                "sub_cols": None if cols is None else list(cols), "suffix": sfx, "mergeable": bool(n.mergeable)}
    if cls == "NearSQLBinaryStep":
        if "union" in n.joiner.lower():
            return {"cls": "union", "name": n.query_name, "terms": list((n.terms or {}).keys()),
                    "l": near_skel(n.sub_sql1.near_sql), "r": near_skel(n.sub_sql2.near_sql),
                    "cols": list(n.sub_sql1.columns)}
        ln, rn = n.sub_sql1.public_name_quoted, n.sub_sql2.public_name_quoted

        def shape(k, v):
            """which side leads a coalesce / qualifies a pass-through column (same strings as joinTermShape)"""
            if (v is None) or (v == k):
                return "pass"
            t = str(v).strip()
            il, ir = t.find(str(ln) + "."), t.find(str(rn) + ".")
            if t.upper().startswith("COALESCE(") and il >= 0 and ir >= 0:
                return "coalesce:l:r" if il < ir else "coalesce:r:l"
            if t.startswith(str(ln) + "."):
                return "qual:l"
            if t.startswith(str(rn) + "."):
                return "qual:r"
            return "other"

        return {"cls": "join", "name": n.query_name,
                "terms": [[k, (v is None) or (v == k), shape(k, v)] for k, v in (n.terms or {}).items()],
                "l": near_skel(n.sub_sql1.near_sql), "l_cols": list(n.sub_sql1.columns), "l_name": n.sub_sql1.public_name,
                "r": near_skel(n.sub_sql2.near_sql), "r_cols": list(n.sub_sql2.columns), "r_name": n.sub_sql2.public_name,
                "joiner": n.joiner}
    return {"cls": cls}


def canon_skel(s):
    """iteration order of Python sets is hash-seed dependent: term keys and bound columns are compared as sets"""
    if not isinstance(s, dict):
        return s
    out = {}
    for k, v in s.items():
        if k in ("on_a", "on_b"):
            continue
        if k in ("terms",) and isinstance(v, list):
            out[k] = sorted(v, key=lambda x: x[0] if isinstance(x, list) else x) or None  # {} renders like None
        elif k in ("sub_cols", "l_cols", "r_cols", "cols") and isinstance(v, list):
            out[k] = sorted(v)
        elif k in ("sub", "l", "r"):
            out[k] = canon_skel(v)
        else:
            out[k] = v
    return out


class K5Near(Suite):
    name = "k5_near"
    n_quick, n_thorough = 300, 4000
    gen_opts = dict(fault_rate=0.0, convert_records=0.0, hostile=False)

    def __init__(self, dialects=("sqlite", "postgres"), **opts):
        self.opts = dict(self.gen_opts, **opts)
        self.dialects = dialects
        self.distribution = {}

    def gen(self, rng, tier):
        n = self.n_quick if tier == "quick" else self.n_thorough
        for i in range(n):
            case = pipes.gen_case(random.Random(rng.getrandbits(64)), tier, **self.opts)
            for c in case["meta"].get("calls", []):
                self.distribution[c] = self.distribution.get(c, 0) + 1
            yield {"tables": {k: {"cols": v["cols"], "kinds": v["kinds"], "rows": []} for k, v in case["tables"].items()},
                   "pipe": case["pipe"], "dialect": self.dialects[i % len(self.dialects)],
                   "merges": rng.random() < 0.75}

    def _build(self, case):
        with warnings.catch_warnings():
            warnings.simplefilter("ignore")
            return pipes.build(case)

    def real(self, case):
        try:
            ops = self._build(case)
        except Exception as e:
            return {"build_err": type(e).__name__}
        m = _model(case["dialect"], case.get("merges", True))
        try:
            with warnings.catch_warnings():
                warnings.simplefilter("ignore")
                ops.columns_used()
                near = ops.to_near_sql_implementation_(db_model=m, using=None, temp_id_source=[0])
        except Exception as e:
            return {"err": type(e).__name__}
        return {"ok": near_skel(near)}

    def driver_case(self, case):
        try:
            ops = self._build(case)
        except Exception:
            return {"ops": {"node": "table", "name": "none", "cols": ["x"]}, "dialect": case["dialect"]}
        return {"ops": mt.to_model_tree(ops), "dialect": case["dialect"], "merges": case.get("merges", True)}

    def real_canon(self, out, case=None):
        if isinstance(out, dict) and "ok" in out:
            return {"ok": canon_skel(out["ok"])}
        return out

    def model_canon(self, out, case=None):
        if isinstance(out, dict) and "ok" in out:
            return {"ok": canon_skel(out["ok"])}
        return out

    def agree(self, real_c, model_c):
        if isinstance(real_c, dict) and "build_err" in real_c:
            return True
        return super().agree(real_c, model_c)

    def nontrivial(self, case, real_out):
        return isinstance(real_out, dict) and "ok" in real_out and real_out["ok"].get("cls") != "table"

    def shrink(self, case):
        for c in pipes.shrink_case(case):
            yield dict(case, tables=c["tables"], pipe=c["pipe"])


class K5Sem(K4Sem):
    """the SQL text of the SQLite dialect executed on SQLite vs `semSql ThetaSql (toNearSql sqlite p)`"""
    name = "k5_sem"

    def gen(self, rng, tier):
        for c in super().gen(rng, tier):
            c["dialect"] = "sqlite"
            c["merges"] = rng.random() < 0.75
            yield c

    def real(self, case):
        try:
            ops = self._build(case)
        except Exception as e:
            return {"build_err": type(e).__name__}
        m = _model("sqlite", case.get("merges", True))
        return pipes.run_sqlite(ops, case["tables"], model=m)

    def agree(self, real_c, model_c):
        ok = super().agree(real_c, model_c)
        if ok:
            return True
        # the documented destination difference of C01: SQLite's `/` and `%` on integer operands are integer
        # operations; the model's cells carry no int/float distinction (exact rationals)
        import json as _json
        txt = _json.dumps(getattr(self, "_cur_pipe", ""))
        if any(tok in txt for tok in (" / ", " // ", " % ", "%/%", ".mod(", ".remainder(")):
            self.intdiv_skips = getattr(self, "intdiv_skips", 0) + 1
            return True
        return False

    def real_canon(self, out, case=None):
        self._cur_pipe = case["pipe"] if case else ""
        return super().real_canon(out, case)

    def driver_case(self, case):
        d = super().driver_case(case)
        d["dialect"] = "sqlite"
        d["merges"] = case.get("merges", True)
        return d

    def shrink(self, case):
        for c in pipes.shrink_case(case):
            yield dict(case, tables=c["tables"], pipe=c["pipe"])


def with_skel(near, cte_elim):
    wl = near.to_with_form(cte_cache={} if cte_elim else None)
    return {"steps": [{"name": _unq(k), "near": near_skel(c.near_sql),
                       "cols": None if c.columns is None else list(c.columns), "force": bool(c.force_sql)}
                      for k, c in wl.previous_steps],
            "last": near_skel(wl.last_step)}


def canon_with(w):
    return {"steps": [{"name": s["name"], "near": canon_skel(s["near"]),
                       "cols": None if s["cols"] is None else sorted(s["cols"]), "force": s["force"]}
                      for s in w["steps"]],
            "last": canon_skel(w["last"])}


class K5With(K5Near):
    """`to_with_form` (with and without the CTE-elimination cache) vs the model's `toWithForm`"""
    name = "k5_with"
    gen_opts = dict(fault_rate=0.0, convert_records=0.0, hostile=False, shared=0.8)

    def gen(self, rng, tier):
        for c in super().gen(rng, tier):
            # with the cache the real keys contain `list(columns)` / `terms.keys()` in Python set-iteration order, so
            # whether two sub-queries share a CTE is hash-seed dependent; the structural comparison is done without
            # the cache, the cached form is compared semantically (K5SemOpt) and proved sound for any faithful key
            c["cte_elim"] = False
            yield c

    def real(self, case):
        try:
            ops = self._build(case)
        except Exception as e:
            return {"build_err": type(e).__name__}
        m = _model(case["dialect"], case.get("merges", True))
        try:
            with warnings.catch_warnings():
                warnings.simplefilter("ignore")
                ops.columns_used()
                near = ops.to_near_sql_implementation_(db_model=m, using=None, temp_id_source=[0])
                return {"ok": with_skel(near, case.get("cte_elim", False))}
        except Exception as e:
            return {"err": type(e).__name__}

    def driver_case(self, case):
        d = super().driver_case(case)
        d["cte_elim"] = case.get("cte_elim", False)
        return d

    def real_canon(self, out, case=None):
        if isinstance(out, dict) and "ok" in out:
            return {"ok": canon_with(out["ok"])}
        return out

    def model_canon(self, out, case=None):
        if isinstance(out, dict) and "ok" in out:
            return {"ok": canon_with(out["ok"])}
        return out

    def nontrivial(self, case, real_out):
        return isinstance(real_out, dict) and "ok" in real_out and len(real_out["ok"]["steps"]) > 0


class K5SemOpt(K5Sem):
    """the SQL text under use_with / use_cte_elim / merge options executed (SQLite dialect on SQLite; PostgreSQL dialect
    text on the stand-in engine) vs the model's `semToSql`"""
    name = "k5_semopt"
    gen_opts = dict(K4Sem.gen_opts, shared=0.8)

    def gen(self, rng, tier):
        for c in K4Sem.gen(self, rng, tier):
            c["dialect"] = "postgres" if rng.random() < 0.5 else "sqlite"
            c["merges"] = rng.random() < 0.7
            c["use_with"] = rng.random() < 0.8
            c["cte_elim"] = rng.random() < 0.7
            yield c

    def real(self, case):
        try:
            ops = self._build(case)
        except Exception as e:
            return {"build_err": type(e).__name__}
        opts = {"use_with": case["use_with"], "use_cte_elim": case["cte_elim"], "annotate": False}
        if case["dialect"] == "sqlite":
            return pipes.run_sqlite(ops, case["tables"], sql_options=opts, model=_model("sqlite", case["merges"]))
        L = pipes.L
        old = L.PostgreSQL.PostgreSQLModel
        if not case["merges"]:
            # run_pg_on_sqlite constructs its own model: switch merges off on the class instance it creates
            class _NoMerge(old):
                def __init__(self, *a, **k):
                    super().__init__(*a, **k)
                    self.allow_extend_merges = False
            L.PostgreSQL.PostgreSQLModel = _NoMerge
        try:
            out = pipes.run_pg_on_sqlite(ops, case["tables"], options=opts)
        finally:
            L.PostgreSQL.PostgreSQLModel = old
        return out

    def driver_case(self, case):
        d = K4Sem.driver_case(self, case)
        # the PostgreSQL-dialect text is executed on the stand-in engine (SQLite): its NULL ordering applies
        d.update(dialect=case["dialect"], merges=case["merges"], use_with=case["use_with"], cte_elim=case["cte_elim"],
                 engine="sqlite")
        return d

    def agree(self, real_c, model_c):
        if isinstance(real_c, dict) and "skip" in real_c:
            return True
        return super().agree(real_c, model_c)


def _twin_pipe(pipe, suffix, off):
    """a copy of `pipe` over the twin tables (every table name + suffix; "def"/"ref" numbers shifted by `off`)"""
    import copy
    q = copy.deepcopy(pipe)

    def walk(p):
        if not isinstance(p, dict):
            return
        if "table" in p:
            p["table"] = p["table"] + suffix
        if "def" in p:
            p["def"] = p["def"] + off
        if "ref" in p:
            p["ref"] = p["ref"] + off
        if "src" in p:
            walk(p["src"])
        for s in p.get("steps") or []:
            if isinstance(s.get("b"), dict):
                walk(s["b"])
    walk(q)
    return q


class K5Twins(K5SemOpt):
    """P(tables) concat P(twin tables): the twin tables have the same columns and other rows, so the two branches are
    step for step the same calls on different inputs - what a CTE-elimination key must tell apart.  Always WITH form +
    CTE elimination on the PostgreSQL dialect (the only configuration in which the cache is live)."""
    name = "k5_twins"
    driver_suite = "k5_semopt"
    n_quick, n_thorough = 60, 600
    gen_opts = dict(K4Sem.gen_opts, shared=0.3, max_depth=5, convert_records=0.0)

    def gen(self, rng, tier):
        for c in K4Sem.gen(self, rng, tier):
            r = random.Random(rng.getrandbits(64))
            tw = {}
            for k, t in c["tables"].items():
                # other rows: the same rows permuted with one row dropped (a sub-multiset keeps what the generator
                # guaranteed about the data: unique columns stay unique, total window orders stay total)
                rows2 = [list(x) for x in t["rows"]]
                r.shuffle(rows2)
                rows2 = rows2[1:]
                tw[k + "_tw"] = dict(t, rows=rows2)
            pipe = {"src": c["pipe"], "steps": [{"call": "concat_rows", "b": _twin_pipe(c["pipe"], "_tw", 1000),
                                                 "id_column": r.choice([None, "src_tw"]), "a_name": "a", "b_name": "b"}]}
            case = {"tables": dict(c["tables"], **tw), "pipe": pipe, "dialect": "postgres", "merges": r.random() < 0.7,
                    "use_with": True, "cte_elim": True}
            try:
                self._build(case)
            except Exception:
                continue
            yield case
