"""
self-test of harness/pipes.py:   PYTHONPATH=/repo:/verif /venv/bin/python -W ignore -m harness.test_pipes [N] [seed]
exit 0 = all checks passed.  Prints the measured input distribution (used in notes/pipegen_report.md).
"""
import collections
import json
import random
import sys
import time

from . import pipes as P


def check(cond, msg, fails):
    if not cond:
        fails.append(msg)


def unit_tests(fails):
    # --- Val / Table encodings
    t = P.mk_table(["i", "x", "y", "s", "b"], ["int", "int", "float", "str", "bool"],
                   [[1, 1, 0.5, "a", True], [2, None, None, None, False], [3, 3, -1.5, "it's", True]])
    check(t["rows"][0] == [{"i": 1}, {"i": 1}, {"f": [1, 2]}, {"s": "a"}, True], "mk_table encoding", fails)
    fr = P.tables_to_pandas({"d": t})["d"]
    check([str(d) for d in fr.dtypes][:3] == ["int64", "float64", "float64"], "dtype policy " + str(list(fr.dtypes)), fails)
    back = P.frame_to_table(fr, kinds=t["kinds"])
    check(back == t, "tables_to_pandas / frame_to_table round trip", fails)
    back2 = P.frame_to_table(fr)
    check(back2["kinds"] == ["int", "float", "float", "str", "bool"], "kind inference " + str(back2["kinds"]), fails)
    check(P.same_table(back2, t) is None, "same_table across int/float encodings", fails)
    # bool with nulls, all-null string, empty table
    t2 = P.mk_table(["b", "s"], ["bool", "str"], [[True, None], [None, None]])
    f2 = P.tables_to_pandas({"d": t2})["d"]
    check(P.frame_to_table(f2, kinds=t2["kinds"]) == t2, "nullable bool / all-null str round trip", fails)
    t3 = P.mk_table(["x", "s"], ["int", "str"], [])
    f3 = P.tables_to_pandas({"d": t3})["d"]
    check(f3.shape == (0, 2) and P.frame_to_table(f3, kinds=t3["kinds"]) == t3, "empty table round trip", fails)
    # polars
    pf = P.tables_to_polars({"d": t})["d"]
    check(P.same_table(P.frame_to_table(pf), t) is None, "polars round trip", fails)
    # --- same_table
    a = P.mk_table(["x", "y"], ["int", "float"], [[1, 0.5], [2, None], [1, 0.5]])
    b = P.mk_table(["y", "x"], ["float", "float"], [[None, 2.0], [0.5, 1.0], [0.5 + 1e-12, 1.0]])
    check(P.same_table(a, b) is None, "same_table: column permutation, row multiset, tolerance", fails)
    check(P.same_table(a, b, col_order=True) is not None, "same_table col_order", fails)
    check(P.same_table(a, b, ordered=True) is not None, "same_table ordered", fails)
    c = P.mk_table(["x", "y"], ["int", "float"], [[1, 0.5], [2, None], [2, 0.5]])
    check(P.same_table(a, c) is not None, "same_table must see a changed cell", fails)
    d1 = P.mk_table(["b"], ["bool"], [[True], [False]])
    d2 = P.mk_table(["b"], ["int"], [[0], [1]])
    check(P.same_table(d1, d2) is None, "bool vs 0/1", fails)
    z1 = P.mk_table(["s"], ["int"], [[0], [3]])
    z2 = P.mk_table(["s"], ["float"], [[None], [3.0]])
    check(P.same_table(z1, z2) is not None and P.same_table(z1, z2, zero_null_cols={"s"}) is None, "zero_null_cols", fails)
    check(P.same_table(P.mk_table(["s"], ["str"], [["1"]]), P.mk_table(["s"], ["int"], [[1]])) is not None,
          "string '1' is not the number 1", fails)
    # --- build / to_tree with def/ref sharing
    case = {"tables": {"d": P.mk_table(["g", "x", "i"], ["str", "int", "int"], [["a", 1, 1], [None, 2, 2]])},
            "pipe": {"src": {"def": 1, "table": "d", "steps": [
                {"call": "extend", "ops": [["z", "x + 1"]], "partition_by": None, "order_by": None, "reverse": None}]},
                "steps": [{"call": "natural_join", "b": {"src": {"ref": 1}, "steps": [
                    {"call": "rename_columns", "map": [["z2", "z"], ["g2", "g"], ["x2", "x"]]}]}, "on": ["i"],
                    "jointype": "LEFT", "check": True}]}}
    ops, err = P.build_or_error(case)
    check(err is None, "build shared case: " + str(err), fails)
    tr = P.to_tree(ops)
    ids = [n["id"] for n in P.tree_nodes(tr) if n["node"] == "extend"]
    check(len(ids) == 2 and ids[0] == ids[1], "shared sub-DAG has one id: " + str(ids), fails)
    check(tr["node"] == "join" and tr["type"] == "LEFT" and tr["on_a"] == ["i"], "join node fields", fails)
    ext = tr["a"]
    check(ext["ops"] == [["z", {"op": "+", "args": [{"c": "x"}, {"v": {"i": 1}}], "inline": True, "method": False}]],
          "Term JSON " + json.dumps(ext["ops"]), fails)
    check(ext["partition"] == [] and ext["windowed"] is False, "plain extend flags", fails)
    # literal payload types kept apart
    o2 = P.build({"table": "d", "steps": [{"call": "extend", "ops": [["a", "1"], ["b", "1.0"], ["c", "True"], ["e", "'1'"]],
                                          "partition_by": None, "order_by": None, "reverse": None}]}, case["tables"])
    vals = [v for _, v in P.to_tree(o2)["ops"]]
    check(vals == [{"v": {"i": 1}}, {"v": {"f": [1, 1]}}, {"v": True}, {"v": {"s": "1"}}], "Value payloads " + str(vals), fails)
    o3 = P.build({"table": "d", "steps": [{"call": "extend", "ops": [["n", "_row_number()"]], "partition_by": 1,
                                          "order_by": ["i"], "reverse": ["i"]}]}, case["tables"])
    t3 = P.to_tree(o3)
    check(t3["partition"] == 1 and t3["windowed"] and t3["ordered"] and t3["reverse"] == ["i"], "windowed flags", fails)
    _, e4 = P.build_or_error({"table": "d", "steps": [{"call": "select_columns", "cols": ["nope"]}]}, case["tables"])
    check(e4 == "KeyError", "error class of unknown select: " + str(e4), fails)
    # runners
    for f in (P.run_pandas, P.run_sqlite, P.run_pg_on_sqlite, P.run_polars):
        r = f(ops, case["tables"])
        check("ok" in r and set(r["ok"]["cols"]) == set(ops.column_names), f.__name__ + " outcome " + json.dumps(r)[:200], fails)
    r = P.run_polars(ops, case["tables"], lazy=True)
    check("ok" in r, "polars lazy", fails)
    r = P.run_sqlite(ops, case["tables"], sql_options={"use_with": False, "annotate": False}, return_sql=True)
    check("ok" in r and "WITH" not in r["sql"], "sql_options honoured", fails)
    m = P.L.SQLite.SQLiteModel()
    m.allow_extend_merges = False
    check("ok" in P.run_sqlite(ops, case["tables"], model=m), "model argument", fails)
    bad = P.build({"table": "d", "steps": [{"call": "select_rows", "expr": "x > 1"}]}, case["tables"])
    check(P.run_pandas(bad, {"d": P.mk_table(["x"], ["str"], [["a"]])}).get("err") is not None, "errors become outcomes", fails)


def stream_tests(n, seed, fails):
    rng = random.Random(seed)
    dist = collections.Counter()
    calls = collections.Counter()
    depth = collections.Counter()
    faults = collections.Counter()
    jts = collections.Counter()
    times = collections.Counter()
    nullsum = 0.0
    accepted_faults = collections.Counter()
    rejected_valid = collections.Counter()
    first_json = None
    for i in range(n):
        t0 = time.time()
        case = P.gen_case(rng, "quick" if i % 5 else "thorough")
        times["gen"] += time.time() - t0
        js = json.dumps(case, sort_keys=True)
        if i == 0:
            first_json = js
        case2 = json.loads(js)
        f = P.case_features(case2)
        dist["cases"] += 1
        for k in ("shared", "diff_keys", "empty_table", "all_null_column", "duplicates", "final_order",
                  "interior_order_nolimit"):
            dist[k] += bool(f[k])
        dist["ntables_%d" % f["ntables"]] += 1
        depth[f["depth"]] += 1
        nullsum += f["null_rate"]
        for k, v in f["calls"].items():
            calls[k] += v
        for j in f["jointypes"]:
            jts[j.lower()] += 1
        t0 = time.time()
        ops, err = P.build_or_error(case2)
        times["build"] += time.time() - t0
        if f["fault"]:
            faults[f["fault"]] += 1
            dist["faulty"] += 1
            if err is None:
                accepted_faults[f["fault"]] += 1
        else:
            dist["valid"] += 1
            if err is not None:
                rejected_valid[err] += 1
                continue
            dist["valid_built"] += 1
            # replays from JSON alone: a second build gives the same tree
            t1 = P.to_tree(ops)
            t2 = P.to_tree(P.build(json.loads(js)))
            check(t1 == t2, f"case {i}: rebuild gives a different tree", fails)
            check(set(ops.column_names) == set(case["meta"]["declared"]), f"case {i}: declared column set", fails)
            t0 = time.time()
            a = P.run_pandas(ops, case2["tables"])
            times["pandas"] += time.time() - t0
            t0 = time.time()
            b = P.run_sqlite(ops, case2["tables"])
            times["sqlite"] += time.time() - t0
            dist["pandas_ok"] += "ok" in a
            dist["sqlite_ok"] += "ok" in b
            if "ok" in a and "ok" in b:
                dist["both_ok"] += 1
                dist["pandas_eq_sqlite"] += P.same_table(a["ok"], b["ok"]) is None
            json.dumps(a), json.dumps(b)
            if i % 10 == 0:
                k = 0
                for c in P.shrink_case(case2):
                    json.dumps(c)
                    k += 1
                    if k > 30:
                        break
    # determinism
    rng2 = random.Random(seed)
    check(json.dumps(P.gen_case(rng2, "thorough" if 0 % 5 == 0 else "quick"), sort_keys=True) == first_json,
          "generator is not deterministic from the rng", fails)
    return dict(dist=dist, calls=calls, depth=depth, faults=faults, jointypes=jts, times=times,
                null_rate=nullsum / max(n, 1), accepted_faults=accepted_faults, rejected_valid=rejected_valid)


def main():
    n = int(sys.argv[1]) if len(sys.argv) > 1 else 300
    seed = int(sys.argv[2]) if len(sys.argv) > 2 else 0
    fails = []
    unit_tests(fails)
    st = stream_tests(n, seed, fails)
    d = st["dist"]
    print("cases", d["cases"], "valid", d["valid"], "faulty", d["faulty"])
    print("valid pipelines accepted by the builders: %d / %d ; rejected: %s" % (d["valid_built"], d["valid"], dict(st["rejected_valid"])))
    print("faulty steps accepted by the builders:", dict(st["accepted_faults"]))
    print("pandas ok %d, sqlite ok %d, both %d, equal %d (of built %d)" % (d["pandas_ok"], d["sqlite_ok"], d["both_ok"],
                                                                          d["pandas_eq_sqlite"], d["valid_built"]))
    print("step mix:", dict(sorted(st["calls"].items(), key=lambda kv: -kv[1])))
    print("depth:", dict(sorted(st["depth"].items())))
    print("join types:", dict(st["jointypes"]), "fault kinds:", dict(st["faults"]))
    print("rates: " + ", ".join(f"{k} {d[k] / d['cases']:.2f}" for k in ("shared", "diff_keys", "empty_table", "all_null_column",
                                                                         "duplicates", "final_order", "interior_order_nolimit",
                                                                         "ntables_1", "ntables_2", "ntables_3"))
          + f", mean null rate {st['null_rate']:.2f}")
    print("per-case seconds: " + ", ".join(f"{k} {v / max(d['cases'], 1):.4f}" for k, v in st["times"].items()))
    for m in fails[:20]:
        print("FAIL:", m)
    print("self-test:", "FAILED (%d)" % len(fails) if fails else "ok")
    return 1 if fails else 0


if __name__ == "__main__":
    sys.exit(main())
